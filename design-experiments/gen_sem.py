import sys
N=int(sys.argv[1]); mode=sys.argv[2]
out=[]; A=out.append
A("(set-option :produce-models true)(set-logic ALL)")
for x in "ab":
    A(f"(declare-const {x} (Array Int Int))(declare-const l{x} Int)")
    A(f"(assert (and (<= 1 l{x}) (<= l{x} {N})))")
def sel(x,p): return f"(select {x} {p})"
def isdig(c): return f"(and (<= 48 {c}) (<= {c} 57))"
def isalpha(c): return f"(or (and (<= 65 {c}) (<= {c} 90)) (and (<= 97 {c}) (<= {c} 122)) (= {c} 45))"
def OR(l): return "false" if not l else ("(or "+" ".join(l)+")" if len(l)>1 else l[0])
def AND(l): return "true" if not l else ("(and "+" ".join(l)+")" if len(l)>1 else l[0])
def ite(c,t,e): return f"(ite {c} {t} {e})"
# end of identifier starting at p (first dot >= p or len)
def endf(x,p):
    e=f"l{x}"
    for q in range(N-1,p-1,-1):
        e=ite(f"(and (< {q} l{x}) (= {sel(x,q)} 46))",str(q),e)
    return e
for x in "ab":
    for p in range(N+1):
        A(f"(define-fun end_{x}_{p} () Int {endf(x,p) if p<N else 'l'+x})")
# valid
for x in "ab":
    cs=[]
    for p in range(N):
        c=sel(x,p)
        cs.append(f"(=> (< {p} l{x}) (or {isdig(c)} {isalpha(c)} (= {c} 46)))")
        # no empty identifiers
        cs.append(f"(=> (and (< {p} l{x}) (= {c} 46)) (and (> {p} 0) (< {p+1} l{x}) (not (= {sel(x,p+1)} 46)) ))")
        # numeric ident no leading zero: if ident starts at p, first char '0', len>1 => some non-digit in ident
        start = "true" if p==0 else f"(= {sel(x,p-1)} 46)"
        nd=OR([f"(and (< {q} end_{x}_{p}) (not {isdig(sel(x,q))}))" for q in range(p,N)])
        cs.append(f"(=> (and (< {p} l{x}) {start} (= {c} 48) (> end_{x}_{p} {p+1})) {nd})")
    A(f"(assert {AND(cs)})")
# lexicographic compare of x[p:ex] vs y[p:ey] -> -1/0/1 (generic segments from same start p)
def lex(x,y,p,ex,ey):
    e=f"(ite (= {ex} {ey}) 0 (ite (< {ex} {ey}) (- 1) 1))"  # reached min end
    for k in range(N-1,p-1,-1):
        cx,cy=sel(x,k),sel(y,k)
        e=ite(f"(or (>= {k} {ex}) (>= {k} {ey}))", f"(ite (= {ex} {ey}) 0 (ite (< {ex} {ey}) (- 1) 1))" if False else e if False else e, e) if False else \
          ite(f"(and (< {k} {ex}) (< {k} {ey}))", ite(f"(= {cx} {cy})", e, ite(f"(< {cx} {cy})","(- 1)","1")), f"(ite (= (ite (< {ex} {k}) {ex} {k}) -1) 0 0)") if False else None
    return None
# simpler: define lex by explicit first-difference search
def lex2(x,y,p,ex,ey):
    # result for comparing segments x[p:ex], y[p:ey]
    tail=f"(ite (= {ex} {ey}) 0 (ite (< {ex} {ey}) (- 1) 1))"
    e=tail
    for k in range(N-1,p-1,-1):
        cx,cy=sel(x,k),sel(y,k)
        both=f"(and (< {k} {ex}) (< {k} {ey}))"
        e=ite(both, ite(f"(= {cx} {cy})", e, ite(f"(< {cx} {cy})","(- 1)","1")), tail)
    return e
def allnum(x,p,ex):
    return AND([f"(=> (< {q} {ex}) {isdig(sel(x,q))})" for q in range(p,N)])
# spec: aligned recursion
A(f"(define-fun spec_{N} () Int 0)")
for p in range(N-1,-1,-1):
    ea,eb=f"end_a_{p}",f"end_b_{p}"
    na,nb=allnum('a',p,ea),allnum('b',p,eb)
    numcmp=ite(f"(= {ea} {eb})", lex2('a','b',p,ea,eb), ite(f"(< {ea} {eb})","(- 1)","1"))
    cid=ite(f"(and {na} {nb})", numcmp, ite(na,"(- 1)", ite(nb,"1", lex2('a','b',p,ea,eb))))
    # next
    nxt=[]
    e="0"
    for q in range(N-1,p,-1):  # q = ea+1 = eb+1 candidate
        e=ite(f"(= (+ {ea} 1) {q})", f"spec_{q}", e)
    cont=ite(f"(and (= {ea} la) (= {eb} lb))","0", ite(f"(= {ea} la)","(- 1)", ite(f"(= {eb} lb)","1", e)))
    A(f"(define-fun cid_{p} () Int {cid})")
    A(f"(define-fun spec_{p} () Int (ite (not (= cid_{p} 0)) cid_{p} {cont}))")
# code model
def code(s,l,name):
    ls,ll=f"l{s}",f"l{l}"
    # first diff index
    fd=f"(- 1)"
    for k in range(N-1,-1,-1):
        fd=ite(f"(and (< {k} {ls}) (not (= {sel(s,k)} {sel(l,k)})))",str(k),fd) if False else fd
    e="(- 1)"
    for k in range(N-1,-1,-1):
        e=ite(f"(and (< {k} {ls}) (not (= {sel(s,k)} {sel(l,k)})))",str(k),e)
    # need the FIRST: build from the end so earlier k overrides: above loop does that (k=0 outermost)
    A(f"(define-fun fd_{name} () Int {e})")
    # suffix compare from i (constant) : digits-only both?
    res="0"
    for i in range(N-1,-1,-1):
        ds=AND([f"(=> (< {q} {ls}) {isdig(sel(s,q))})" for q in range(i,N)])
        dl=AND([f"(=> (< {q} {ll}) {isdig(sel(l,q))})" for q in range(i,N)])
        # trimmed starts
        def trim(x,lx):
            t=lx
            for q in range(N-1,i-1,-1):
                t=ite(f"(and (< {q} {lx}) (not (= {sel(x,q)} 48)))",str(q),t)
            return t
        ts,tl=trim(s,ls),trim(l,ll)
        # strcmp of s[ts:ls] vs l[tl:ll] when both digits: general offsets -> compare via relative index
        def strcmp_off(os_,ol_):
            tail=f"(ite (= (- {ls} {os_}) (- {ll} {ol_})) 0 (ite (< (- {ls} {os_}) (- {ll} {ol_})) (- 1) 1))"
            e2=tail
            for r in range(N-1,-1,-1):
                cs=f"(select {s} (+ {os_} {r}))"; cl=f"(select {l} (+ {ol_} {r}))"
                both=f"(and (< (+ {os_} {r}) {ls}) (< (+ {ol_} {r}) {ll}))"
                e2=ite(both, ite(f"(= {cs} {cl})", e2, ite(f"(< {cs} {cl})","(- 1)","1")), tail)
            return e2
        A(f"(define-fun ts_{name}_{i} () Int {ts})(define-fun tl_{name}_{i} () Int {tl})")
        sc=ite(f"(and {ds} {dl})", strcmp_off(f"ts_{name}_{i}",f"tl_{name}_{i}"), strcmp_off(str(i),str(i)))
        res=ite(f"(= fd_{name} {i})", f"(- {sc})", res)
    A(f"(define-fun C_{name} () Int (ite (= fd_{name} (- 1)) (ite (= {ls} {ll}) 0 1) {res}))")
code('a','b','ab'); code('b','a','ba')
A("(define-fun codecmp () Int (ite (> la lb) C_ba (- C_ab)))")
if mode=="cex":
    A("(assert (not (= codecmp spec_0)))")
    A("(check-sat)")
    A("(get-value (la lb codecmp spec_0 "+" ".join(sel('a',i) for i in range(N))+" "+" ".join(sel('b',i) for i in range(N))+"))")
elif mode=="antisym":
    # code antisymmetry: swap roles => need second copy; emulate by computing code(b,a)
    A("(define-fun codecmp_rev () Int (ite (> lb la) C_ab (- C_ba)))")
    A("(assert (not (= codecmp (- codecmp_rev))))")
    A("(check-sat)")
print("\n".join(out))
