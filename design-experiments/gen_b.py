import sys
mode = sys.argv[1]  # 'cex' or 'proof'
out=[]
A=out.append
A("(set-option :produce-models true)")
A("(set-logic ALL)")
A("(declare-const w (Array Int Int))")
A("(declare-const l Int)")
A("(assert (forall ((i Int)) (and (<= 0 (select w i)) (<= (select w i) 255))))" if False else "")
for i in range(16):
    A(f"(assert (and (<= 0 (select w {i})) (<= (select w {i}) 255)))")
A("(define-fun dig ((c Int)) Bool (and (<= 48 c) (<= c 57)))")
def at(e): return f"(select w {e})"
# match: layouts. year n digits at 0..n-1, then optional '-', MM, optional '-', DD
alts=[]
for n in range(4,10):
    for s1 in (0,1):
        for s2 in (0,1):
            L=n+s1+2+s2+2
            conj=[f"(= l {L})"]
            for k in range(n): conj.append(f"(dig {at(k)})")
            p=n
            if s1: conj.append(f"(= {at(p)} 45)"); p+=1
            m0,m1=at(p),at(p+1); p+=2
            conj.append(f"(or (and (= {m0} 49) (<= 48 {m1}) (<= {m1} 50)) (and (= {m0} 48) (dig {m1})))")
            if s2: conj.append(f"(= {at(p)} 45)"); p+=1
            d0,d1=at(p),at(p+1)
            conj.append(f"(or (and (= {d0} 51) (<= 48 {d1}) (<= {d1} 49)) (and (<= 48 {d0}) (<= {d0} 50) (dig {d1})))")
            alts.append("(and "+" ".join(conj)+")")
A("(define-fun match () Bool (or "+" ".join(alts)+"))")
A("(assert match)")
A("(define-fun sep2 () Bool (= (select w (- l 3)) 45))")
A("(define-fun sep1a () Bool (= (select w (- l 5)) 45))")
A("(define-fun sep1b () Bool (= (select w (- l 6)) 45))")
A("(assert (or (and sep2 sep1b) (and (not sep2) (not sep1a))))")
# atoi over ranges: define val(i,j) by unrolled sum for up to 9 digits with symbolic start/len -> use ite on l
def atoi(start, n):  # start expr string, n const
    terms=[f"(* {10**(n-1-k)} (- (select w (+ {start} {k})) 48))" for k in range(n)]
    return "(+ 0 "+" ".join(terms)+")"
A(f"(define-fun dd () Int {atoi('(- l 2)',2)})")
A(f"(define-fun mm () Int (ite sep2 {atoi('(- l 5)',2)} {atoi('(- l 4)',2)}))")
# year: length depends on l
def year():
    e="0"
    for n in range(4,10):
        e=f"(ite (= (ite sep2 (- l 6) (- l 4)) {n}) {atoi('0',n)} {e})"
    return e
A(f"(define-fun yy () Int {year()})")
A("(define-fun leap ((y Int)) Bool (and (= (mod y 4) 0) (or (not (= (mod y 100) 0)) (= (mod y 400) 0))))")
A("(define-fun dim ((y Int) (m Int)) Int (ite (= m 2) (ite (leap y) 29 28) (ite (or (= m 4) (= m 6) (= m 9) (= m 11)) 30 31)))")
if mode=='cex':
    A("(assert (not (and (<= 1 mm) (<= mm 12) (<= 1 dd) (<= dd (dim yy mm)))))")
else:
    A("(assert (not (and (<= 0 mm) (<= mm 12) (<= 0 dd) (<= dd 31) (<= 0 yy) (<= yy 999999999))))")
A("(check-sat)")
if mode=='cex':
    A("(get-value (l yy mm dd "+" ".join(f'(select w {i})' for i in range(10))+"))")
print("\n".join(out))
