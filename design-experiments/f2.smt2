(set-logic ALL)
(declare-const k (_ BitVec 64))
; |k| <= 106751 days
(assert (bvsle (bvneg #x000000000001a0ff) k))
(assert (bvsle k #x000000000001a0ff))
(define-fun h () (_ BitVec 64) (bvmul k #x0000000000000018))
(define-fun hf () (_ FloatingPoint 11 53) ((_ to_fp 11 53) RNE h))
(define-fun q () (_ FloatingPoint 11 53) (fp.div RNE hf ((_ to_fp 11 53) RNE 24.0)))
; Go int(float64) in range: truncation
(assert (not (= ((_ fp.to_sbv 64) RTZ q) k)))
(check-sat)
