# C02 lemma feasibility: text = M^k ++ H(h) ++ T(t) ++ U(u) (upper-case, short forms + long flags),
# any decomposition consistent with the regexp groups yields value 1000k+100h+10t+u
out=[]; A=out.append
A("(set-logic ALL)")
A("(declare-const w (Array Int Int))(declare-const n Int)(declare-const k Int)")
A("(declare-const h Int)(declare-const t Int)(declare-const u Int)")
A("(declare-const f4 Bool)(declare-const f9 Bool)(declare-const f40 Bool)(declare-const f90 Bool)(declare-const f400 Bool)(declare-const f900 Bool)")
A("(assert (and (<= 0 k) (<= 0 h) (<= h 9) (<= 0 t) (<= t 9) (<= 0 u) (<= u 9)))")
A("(assert (forall ((i Int)) (=> (and (<= 0 i) (< i k)) (= (select w i) 77))))")
def digit_text(v, one, five, ten, l4, l9):
    # returns list of (cond, [bytes])
    forms={0:[],1:[one],2:[one]*2,3:[one]*3,5:[five],6:[five,one],7:[five,one,one],8:[five,one,one,one]}
    res=[]
    for d,bs in forms.items(): res.append((f"(= {v} {d})",bs))
    res.append((f"(and (= {v} 4) (not {l4}))",[one,five])); res.append((f"(and (= {v} 4) {l4})",[one]*4))
    res.append((f"(and (= {v} 9) (not {l9}))",[one,ten])); res.append((f"(and (= {v} 9) {l9})",[five]+[one]*4))
    return res
# positions: hs = k, ts = hs+lenH, us = ts+lenT, n = us+lenU
A("(declare-const lh Int)(declare-const lt Int)(declare-const lu Int)")
def emit(v,one,five,ten,l4,l9,base,lenv):
    cs=[]
    for cond,bs in digit_text(v,one,five,ten,l4,l9):
        eqs=[f"(= {lenv} {len(bs)})"]+[f"(= (select w (+ {base} {i})) {b})" for i,b in enumerate(bs)]
        cs.append(f"(=> {cond} (and {' '.join(eqs)}))")
    A("(assert (and "+" ".join(cs)+"))")
emit("h",67,68,77,"f400","f900","k","lh")
emit("t",88,76,67,"f40","f90","(+ k lh)","lt")
emit("u",73,86,88,"f4","f9","(+ k lh lt)","lu")
A("(assert (= n (+ k lh lt lu)))")
# decomposition by regexp: boundaries e1<=e2<=e3<=n
A("(declare-const e1 Int)(declare-const e2 Int)(declare-const e3 Int)")
A("(assert (and (<= 0 e1) (<= e1 e2) (<= e2 e3) (<= e3 n)))")
def ci(c,up): return f"(or (= {c} {up}) (= {c} {up+32}))"
A(f"(assert (forall ((i Int)) (=> (and (<= 0 i) (< i e1)) {ci('(select w i)',77)})))")
def group(base,end,one,five,ten,name):
    L=f"(- {end} {base})"
    at=lambda i: f"(select w (+ {base} {i}))"
    alts=[]
    # five? one{0,4}
    for hasfive in (0,1):
        for cnt in range(0,5):
            conj=[f"(= {L} {hasfive+cnt})"]
            if hasfive: conj.append(ci(at(0),five))
            for j in range(cnt): conj.append(ci(at(hasfive+j),one))
            alts.append("(and "+" ".join(conj)+")")
    alts.append(f"(and (= {L} 2) {ci(at(0),one)} {ci(at(1),five)})")
    alts.append(f"(and (= {L} 2) {ci(at(0),one)} {ci(at(1),ten)})")
    A(f"(define-fun in_{name} () Bool (or {' '.join(alts)}))")
    A(f"(assert in_{name})")
    # gval per statement
    v=f"(ite (and (= {L} 2) {ci(at(0),one)} {ci(at(1),five)}) 4 (ite (and (= {L} 2) {ci(at(0),one)} {ci(at(1),ten)}) 9 (ite (and (>= {L} 1) {ci(at(0),five)}) (+ 4 {L}) {L})))"
    A(f"(define-fun v_{name} () Int {v})")
group("e1","e2",67,68,77,"g2"); group("e2","e3",88,76,67,"g3"); group("e3","n",73,86,88,"g4")
A("(assert (not (and (= e1 k) (= v_g2 h) (= v_g3 t) (= v_g4 u))))")
A("(check-sat)")
print("\n".join(out))
