(set-logic ALL)
; buffer contents c (Array Int Int), length n; caller prefix p with length pl
(declare-const p (Array Int Int))(declare-const pl Int)
(declare-const c (Array Int Int))(declare-const n Int)
(declare-const j Int)(declare-const r Int)
(assert (<= 0 pl))(assert (<= 0 j))(assert (< j r))
; invariant at loop head
(assert (= n (+ pl j)))
(assert (forall ((k Int)) (=> (and (<= 0 k) (< k pl)) (= (select c k) (select p k)))))
(assert (forall ((k Int)) (=> (and (<= pl k) (< k n)) (= (select c k) 77))))
; body: WriteByte('M')
(define-fun c2 () (Array Int Int) (store c n 77))
(define-fun n2 () Int (+ n 1))
(define-fun j2 () Int (+ j 1))
; negated invariant after
(assert (not (and (= n2 (+ pl j2))
  (forall ((k Int)) (=> (and (<= 0 k) (< k pl)) (= (select c2 k) (select p k))))
  (forall ((k Int)) (=> (and (<= pl k) (< k n2)) (= (select c2 k) 77))))))
(check-sat)
