#!/usr/bin/env python3
"""Refreshes the generated seeded-changes table inside DESIGN.md (between the seedtable markers)."""
import subprocess, re
p = "/verif/DESIGN.md"
s = open(p).read()
table = subprocess.run(["python3", "/verif/tools/mkseedtable.py"], capture_output=True, text=True).stdout.strip()
block = "<!-- seedtable:begin -->\n" + table + "\n<!-- seedtable:end -->"
if "@@SEEDTABLE@@" in s:
    s = s.replace("@@SEEDTABLE@@", block)
else:
    s = re.sub(r"<!-- seedtable:begin -->.*?<!-- seedtable:end -->", lambda m: block, s, flags=re.S)
open(p, "w").write(s)
print("DESIGN.md seed table refreshed")
