#!/usr/bin/env python3
"""Refreshes the generated seeded-changes table inside DESIGN.md (between the seedtable markers)."""
import subprocess, re
p = "/verif/DESIGN.md"
s = open(p).read()
table = subprocess.run(["python3", "/verif/tools/mkseedtable.py"], capture_output=True, text=True).stdout.strip()
block = "<!-- seedtable:begin -->\n" + table + "\n<!-- seedtable:end -->"
if "@@SEEDTABLE@@" in s:
    s = s.replace("@@SEEDTABLE@@", block)
else:
    s = re.sub(r"<!-- seedtable:begin -->.*?<!-- seedtable:end -->", lambda m: block, s, flags=re.S)
# per-property coverage table from MANIFEST + evidence
import json, os
man = json.load(open("/verif/MANIFEST.json"))
rows = ["| property | functions under contract | obligations (headline) | quick check wall time | trusted axioms / assumed library contracts used |", "|---|---|---|---|---|"]
for c in man["checks"]:
    pid = c["property_id"]
    f = "/verif/evidence/%s.json" % pid
    if not os.path.exists(f):
        continue
    ev = json.load(open(f)); cov = ev["coverage"]
    tb = [t for t in cov.get("trusted_base", []) if t.startswith("TRUSTED AXIOM") or t.startswith("assumed contract of") or t.startswith("ASSUMED CONTRACT") or t.startswith("unknown callee")]
    short = sorted(set(t.replace("assumed contract of ", "").replace("TRUSTED AXIOM (contract assumed, never verified): ", "axiom ").split(" (")[0] for t in tb))
    rows.append("| %s | %d | %d (%d) | %.0f s | %s |" % (pid, len(cov["functions_under_contract"]), cov["obligations"], cov["headline_obligations"], ev["wall_s"], ", ".join(short)[:400]))
# obligations that took 10 s or more on the last run: the ones whose proofs are most at risk from load or solver luck
slow = []
for c in man["checks"]:
    f = "/verif/evidence/%s.json" % c["property_id"]
    if os.path.exists(f):
        for o in json.load(open(f))["coverage"].get("slowest", []):
            if o["seconds"] >= 10:
                slow.append((o["seconds"], o["obligation"], o["solver"]))
seen = set()
rows.append("")
rows.append("Obligations that took 10 s or more on the last quick run (budget 60 s; timeouts retried with 120 s and, when at most three remain, once more with 180 s):")
rows.append("")
for sec, ob, sv in sorted(slow, reverse=True):
    if ob in seen:
        continue
    seen.add(ob)
    rows.append("* `%s` - %.0f s (%s)" % (ob, sec, sv))
if not seen:
    rows.append("* none")
block2 = "<!-- covtable:begin -->\n" + "\n".join(rows) + "\n<!-- covtable:end -->"
if "<!-- covtable:begin -->" in s:
    s = re.sub(r"<!-- covtable:begin -->.*?<!-- covtable:end -->", lambda m: block2, s, flags=re.S)
open(p, "w").write(s)
print("DESIGN.md tables refreshed")
