#!/usr/bin/env python3
"""Prints a markdown table of the seeded changes under /verif/seeded (from their meta.json / check output)."""
import json, glob, os, re
rows = []
for d in sorted(glob.glob("/verif/seeded/C*-*")):
    try:
        m = json.load(open(d + "/meta.json"))
    except Exception:
        continue
    patch = open(d + "/patch.diff").read() if os.path.exists(d + "/patch.diff") else ""
    files = sorted(set(re.findall(r"^\+\+\+ b/(\S+)", patch, re.M)))
    obl = []
    for f in glob.glob(d + "/check-*.out"):
        for line in open(f):
            mm = re.search(r"obligation=(\S+)", line)
            if line.startswith("VIOLATION") and mm:
                obl.append(mm.group(1) + ("" if "no-failing-input-found" in line else " (replayed input)"))
    det = "yes" if obl else ("NO" if m.get("confirmed") else "-")
    rows.append((os.path.basename(d), ", ".join(files), "yes" if m.get("confirmed") else "not confirmed", det, "; ".join(obl[:3]) + (" …" if len(obl) > 3 else "")))
print("| change | file(s) changed | confirmed (suite green, demo fails only with it) | detected | failing obligation(s) |")
print("|---|---|---|---|---|")
for r in rows:
    print("| " + " | ".join(r) + " |")
