#!/usr/bin/env python3
"""Regenerates /verif/expected.json (vacuity guard) from the evidence files of the claimed properties:
a check fails if it generates fewer than 80% of the headline obligations / functions recorded here."""
import json, glob, os
man = json.load(open("/verif/MANIFEST.json"))
exp = {}
for c in man["checks"]:
    p = c["property_id"]
    f = "/verif/evidence/%s.json" % p
    if not os.path.exists(f):
        continue
    cov = json.load(open(f))["coverage"]
    exp[p] = {"functions": int(len(cov["functions_under_contract"]) * 0.8), "headline": int(cov["headline_obligations"] * 0.8)}
json.dump(exp, open("/verif/expected.json", "w"), indent=1, sort_keys=True)
print("expected.json:", len(exp), "properties")
# names recorded from the tree the contracts were written against (run this on the unchanged, committed tree only):
# parameter / result / captured-variable / loop-variable / in-memory local names, used to keep a contract's names
# resolvable after a pure renaming (govc/names.go)
import subprocess
r = subprocess.run(["/verif/bin/govc", "names", "/repo"], capture_output=True, text=True)
if r.returncode == 0 and r.stdout.strip().startswith("{"):
    json.dump(json.loads(r.stdout), open("/verif/names.json", "w"), indent=0, sort_keys=True)
    print("names.json written")
else:
    print("names.json NOT written:", r.stderr[-300:])
