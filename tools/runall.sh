#!/bin/sh
# runs every claimed check (quick tier by default) and prints one line per property
TIER="${1:-quick}"
for p in $(python3 -c "import json;print(' '.join(c['property_id'] for c in json.load(open('/verif/MANIFEST.json'))['checks']))"); do
  out=$(/verif/check.sh $p $TIER 2>&1); rc=$?
  echo "$p rc=$rc $(echo "$out" | grep -c VIOLATION) violations :: $(echo "$out" | tail -1)"
  echo "$out" | grep "VIOLATION\|KNOWN-FINDING" | head -5
done
