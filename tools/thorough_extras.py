#!/usr/bin/env python3
"""Thorough tier, after the deductive check passed: (1) for the properties resting on the assumed encoding/json model,
run /verif/axiomtest (the real decoder against the model on generated documents); (2) must-fail self-test: apply each
seeded change written against this property (/verif/seeded/<prop>-n/patch.diff) to a scratch copy of /repo's working
tree and expect the same check to report a violation there. Results are added to the evidence file. Nothing here can
turn a pass into a property violation: a seeded change that is no longer detected is reported as a weakness of the
check (stderr + evidence), not as a violation of the property."""
import json, os, subprocess, sys, tempfile, shutil, glob

prop, evfile = sys.argv[1], sys.argv[2]
repo = os.environ.get("GOVC_REPO", "/repo")
env = dict(os.environ, GOFLAGS="-mod=mod", GOPROXY="off", GOSUMDB="off", GOTOOLCHAIN="local")
ev = json.load(open(evfile))
cov = ev["coverage"]

if prop in ("C04", "C12"):
    r = subprocess.run(["go", "run", ".", "50000"], cwd="/verif/axiomtest", env=env, capture_output=True, text=True, timeout=600)
    cov["assumption_sanity"] = {"what": "real encoding/json.Decoder and strconv compared with the assumed contracts on generated documents (empirical, not a proof)",
                                "exit": r.returncode, "output": (r.stdout + r.stderr).strip()[-400:]}
    if r.returncode != 0:
        print("govc: WARNING: the assumed encoding/json model disagrees with the real decoder (see evidence)", file=sys.stderr)

if prop == "C20":
    # the scripted-behaviour search (the witness search the check uses after a failed obligation) run on the tree as it
    # is: the real helpers with real testify against an oracle written from the statement. Empirical cross-check of the
    # assumed contracts (testify, unknown callees); the known finding D9 is excluded from the search.
    scratch = tempfile.mkdtemp(prefix="govc-c20w-")
    try:
        tf = scratch + "/zz_replay_test.go"
        shutil.copy("/verif/govc/c20witness_test.go.txt", tf)
        json.dump({"Replace": {repo + "/test/zz_verif_replay_test.go": tf}}, open(scratch + "/ov.json", "w"))
        r = subprocess.run(["go", "test", "-tags", "verif", "-overlay", scratch + "/ov.json", "-vet=off", "-count=1", "-v", "-timeout", "120s",
                            "-run", "^TestVerifReplay$", "."], cwd=repo + "/test", env=env, capture_output=True, text=True, timeout=300)
        lines = [l for l in r.stdout.splitlines() if l.startswith("VERIFWITNESS")]
        cov["assumption_sanity"] = {"what": "6 helpers x 3 constraints x 4x4 hook behaviours x 9 marshaler behaviours x 6 predicate kinds, each also as the second case of a list whose first case is of the other direction, plus pointer-typed T and a type without the interface, run on the real helpers against an oracle written from the statement (empirical, not a proof)",
                                    "exit": r.returncode, "output": "\n".join(lines)[-1200:]}
        if not any(l.startswith("VERIFWITNESSDONE found=0") for l in lines):
            print("govc: WARNING: the scripted-behaviour search disagrees with the proved clauses (see evidence)", file=sys.stderr)
    finally:
        shutil.rmtree(scratch, ignore_errors=True)

results = []
for d in sorted(glob.glob("/verif/seeded/%s-*" % prop)):
    try:
        if not json.load(open(d + "/meta.json")).get("confirmed"):
            continue
    except Exception:
        continue
    scratch = tempfile.mkdtemp(prefix="govc-selftest-")
    try:
        subprocess.run(["rsync", "-a", "--exclude", ".git", repo + "/", scratch + "/"], check=True)
        ap = subprocess.run(["patch", "-p1", "-s", "-f", "-i", d + "/patch.diff"], cwd=scratch, capture_output=True, text=True)
        if ap.returncode != 0:
            results.append({"change": os.path.basename(d), "result": "patch does not apply to the current tree (skipped)"})
            continue
        r = subprocess.run(["/verif/bin/govc", "check", "-prop", prop, "-tier", "quick", "-repo", scratch, "-out", scratch + "/ev.json",
                            "-replaydir", scratch + "/replay"], env=env, capture_output=True, text=True, timeout=3600)
        detected = r.returncode == 1 and ("VIOLATION property=%s" % prop) in r.stdout
        results.append({"change": os.path.basename(d), "result": "detected" if detected else "NOT DETECTED",
                        "violation_lines": r.stdout.count("VIOLATION property=")})
        if not detected:
            print("govc: WARNING: seeded change %s is not detected by the %s check any more" % (os.path.basename(d), prop), file=sys.stderr)
    finally:
        shutil.rmtree(scratch, ignore_errors=True)
if results:
    cov["must_fail_selftest"] = {"what": "each confirmed seeded property-breaking change applied to a scratch copy of the working tree; the same check must report a violation",
                                 "changes": results, "detected": sum(1 for r in results if r["result"] == "detected"), "total": len(results)}
json.dump(ev, open(evfile, "w"), indent=1)
