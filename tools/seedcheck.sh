#!/bin/bash
# usage: seedcheck.sh <property> <n> [extra props to run...]
# Confirms a sub-agent's seeded change (suite green with it, demo fails with it / passes without it) in a scratch
# worktree, then runs the property's check against /repo with the change applied, and files everything under
# /verif/seeded/<property>-<n>/.
set -u
export GOFLAGS=-mod=mod GOPROXY=off GOSUMDB=off GOTOOLCHAIN=local
P="$1"; N="$2"; shift 2
SRC=${SEED_SRC:-/tmp/wt/$P/_out}
PATCH=$SRC/patch$N.diff
DEMO=$SRC/demo${N}_test.go
[ -f "$PATCH" ] || { echo "no $PATCH"; exit 2; }
OUT=/verif/seeded/$P-${SEED_NAME:-$N}
mkdir -p $OUT
cp $PATCH $OUT/patch.diff
[ -f "$DEMO" ] && cp $DEMO $OUT/demo_test.go.txt
# which package dir does the demo belong to?
PKG=$(grep -m1 '^package ' $DEMO | awk '{print $2}' | sed 's/_test$//')
# run only the demo's own tests (the suite's tests leave package globals modified)
RUN="^($(grep -oE '^func (Test[A-Za-z0-9_]*)' $DEMO | awk '{print $2}' | paste -sd'|'))\$"

SC=$(mktemp -d /tmp/seedcheck.XXXXXX)
git -C /repo worktree add --detach $SC HEAD >/dev/null 2>&1
cd $SC
SUITE=unknown; DEMO_WITH=unknown; DEMO_WITHOUT=unknown
if git apply $PATCH 2>$OUT/apply.err; then
  if go build ./... >/dev/null 2>&1 && go test -count=1 ./... >$OUT/suite.log 2>&1; then SUITE=green; else SUITE=red; fi
  cp $DEMO $SC/$PKG/zz_demo_test.go
  if go test -count=1 -timeout 120s -run "$RUN" ./$PKG/ >$OUT/demo_with.log 2>&1; then DEMO_WITH=pass; else DEMO_WITH=fail; fi
  git checkout -- . 2>/dev/null
  if go test -count=1 -timeout 120s -run "$RUN" ./$PKG/ >$OUT/demo_without.log 2>&1; then DEMO_WITHOUT=pass; else DEMO_WITHOUT=fail; fi
  rm -f $SC/$PKG/zz_demo_test.go
else
  SUITE=patch-does-not-apply
fi
cd /verif
RESULTS=""
if [ "$SUITE" = green ] && [ "$DEMO_WITH" = fail ] && [ "$DEMO_WITHOUT" = pass ]; then
  # the check runs against the scratch worktree (the committed tree of /repo plus the change), so that /repo itself
  # is never touched and work there can go on meanwhile
  git -C $SC apply $PATCH
  for Q in $P "$@"; do
    /verif/bin/govc check -prop $Q -repo $SC -out $OUT/evidence-$Q.json -replaydir $OUT/replay > $OUT/check-$Q.out 2> $OUT/check-$Q.err
    RC=$?
    NV=$(grep -c '^VIOLATION' $OUT/check-$Q.out)
    NC=$(grep '^VIOLATION' $OUT/check-$Q.out | grep -vc 'no-failing-input-found')
    RESULTS="$RESULTS $Q:exit=$RC,violations=$NV,replayed=$NC"
  done
fi
git -C /repo worktree remove --force $SC >/dev/null 2>&1
rm -rf $SC
python3 - "$P" "$N" "$SUITE" "$DEMO_WITH" "$DEMO_WITHOUT" "$RESULTS" <<'PY'
import json,sys,os
p,n,suite,dw,dwo,res=sys.argv[1:7]
import os
out=f"/verif/seeded/{p}-{os.environ.get('SEED_NAME', n)}"
notes=""
try: notes=open(os.environ.get("SEED_SRC", f"/tmp/wt/{p}/_out")+"/notes.md").read()
except Exception: pass
meta={"property":p,"change":int(n),"suite_with_change":suite,"demo_with_change":dw,"demo_without_change":dwo,
 "confirmed": suite=="green" and dw=="fail" and dwo=="pass",
 "checks_run":res.strip(),
 "what_ran":"scratch worktree of /repo HEAD: git apply patch; go test ./... ; demo test with and without the change; then /verif/bin/govc check -prop <id> against that worktree with the patch applied",
 "agent_notes":notes}
json.dump(meta,open(out+"/meta.json","w"),indent=1)
print(p,n,suite,dw,dwo,res)
PY
