#!/bin/bash
# Must-fail corpus: applies every confirmed seeded change under /verif/seeded to /repo in turn, runs the check of the
# property it was written against and expects exit 1 with a VIOLATION line; /repo is restored after each change.
# (Minutes per change; not part of the registered checks.)  usage: selftest.sh [Cxx-n ...]
set -u
cd /verif
if [ -n "$(git -C /repo status --porcelain)" ]; then echo "selftest: /repo has uncommitted changes; refusing to run"; exit 2; fi
FAIL=0
for d in ${@:-$(ls /verif/seeded)}; do
  dir=/verif/seeded/$d
  [ -f $dir/patch.diff ] || continue
  python3 -c "import json,sys; sys.exit(0 if json.load(open('$dir/meta.json')).get('confirmed') else 1)" || continue
  prop=${d%%-*}
  git -C /repo apply $dir/patch.diff || { echo "$d: patch does not apply any more"; FAIL=1; continue; }
  out=$(/verif/bin/govc check -prop $prop -repo /repo -out /tmp/selftest-$d.json -replaydir /tmp/selftest-replay 2>&1); rc=$?
  git -C /repo checkout -- .
  if [ $rc -eq 1 ] && echo "$out" | grep -q "^VIOLATION property=$prop"; then echo "$d: detected ($(echo "$out" | grep -c '^VIOLATION') violation lines)"; else echo "$d: NOT DETECTED (exit $rc)"; FAIL=1; fi
done
rm -rf /tmp/selftest-*.json /tmp/selftest-replay
exit $FAIL
