#!/bin/bash
# usage: refcheck.sh <patch.diff> [label]
# False-alarm probe: applies a behaviour-preserving change to a scratch copy of /repo's working tree (contracts
# included) and runs, for every package the patch touches, the checks of the properties anchored there - restricted
# to that package's functions (-pkgs). Prints one line per check; any VIOLATION here is a false alarm to look at.
set -u
export GOFLAGS=-mod=mod GOPROXY=off GOSUMDB=off GOTOOLCHAIN=local
PATCH="$1"; LABEL="${2:-$(basename $PATCH)}"
SC=$(mktemp -d /tmp/refcheck.XXXXXX)
rsync -a --exclude .git /repo/ $SC/
if ! (cd $SC && patch -p1 -s -f -i "$PATCH" >/dev/null 2>&1); then echo "$LABEL: patch does not apply"; rm -rf $SC; exit 2; fi
if ! (cd $SC && go build ./... >/dev/null 2>&1 && go test -vet=off -count=1 ./... >/dev/null 2>&1); then echo "$LABEL: suite not green with the change"; rm -rf $SC; exit 2; fi
PKGS=$(grep -E '^\+\+\+ b/' "$PATCH" | sed -E 's#^\+\+\+ b/([^/]+)/.*#\1#' | sort -u)
RC=0
for PK in $PKGS; do
  case $PK in
    date) PROPS="C01 C07 C09 C11 C15 C16 C17 C18";;
    roman) PROPS="C02 C10 C16 C17 C18";;
    uu) PROPS="C05 C19 C16 C17 C18";;
    sem) PROPS="C03 C06 C14 C16 C17 C18";;
    size|internal) PROPS="C04 C08 C12 C13 C16 C17 C18"; [ $PK = internal ] && PK=size,internal;;
    test) PROPS="C20";;
    *) PROPS="";;
  esac
  for P in $PROPS; do
    OUT=$(/verif/bin/govc check -prop $P -repo $SC -pkgs $PK -out $SC/ev.json -replaydir $SC/replay 2>&1)
    NV=$(echo "$OUT" | grep -c '^VIOLATION')
    echo "$LABEL $PK $P violations=$NV :: $(echo "$OUT" | grep '^govc: property' | tail -1 | cut -c1-110)"
    if [ $NV -gt 0 ]; then RC=1; echo "$OUT" | grep '^VIOLATION' | head -3 | cut -c1-260; fi
  done
done
rm -rf $SC
exit $RC
