#!/usr/bin/env python3
"""Regenerates /verif/MANIFEST.json from the table below (kept valid at all times)."""
import json, subprocess, sys

HOOK_COMMITS = subprocess.run(["git", "-C", "/repo", "log", "--format=%H %s"], capture_output=True, text=True).stdout.strip().split("\n")
hook_commits = [l.split()[0] for l in HOOK_COMMITS if " verif:" in " " + l]

TRUST = ("Trusted: go/ssa SSA construction, the govc VC generator, solver unsat answers (z3 4.8.12 / z3 5.1.0 / cvc5 1.0.3 raced), "
         "and the assumed contracts of external functions listed in the evidence file (fmt, bytes.Buffer, strconv, regexp, time, math/bits, sync, math/rand); "
         "config globals constant during a call; function-valued globals hold their defaults; termination not proved.")

claimed = {
 "C05": dict(level="proof", text="Unbounded deductive proof: every obligation generated from the SSA of uu's parser (both instantiations), formatter, accessors and Marshal/Unmarshal wrappers is discharged for all 2^128 ids, all rule/format words, all inputs and all MaxInputLength values; the round trip is a lemma over the contracts.",
             ref="DESIGN.md §5 C05", technique="contract-based deductive verification (weakest-precondition VCs over go/ssa, bit-vector + integer SMT, exact loop unrolling with unwinding obligations)"),
 "C01": dict(level="proof", text="Unbounded deductive proof that DefaultFormatter appends exactly the zero-padded ISO text for every real date of year 0..999999999 (both formats), that DefaultParser returns exactly the written components, and (lemmaC01RoundTrip) that parsing the formatted text gives back the date under every MaxInputLength that admits it; MarshalText/String/format/UnmarshalText wrappers under contract. The fmt/json/xml paths beyond those wrappers are standard-library behaviour (assumed).",
             ref="DESIGN.md §5 C01", technique="contract-based deductive verification (WP over go/ssa, integer SMT with exact case splits on text length / year width, staged lemmas)"),
 "C07": dict(level="proof", text="Before/After/Equal proved equal to lexicographic order of the fields and (lemma) to the order of proleptic-Gregorian day numbers; New/Time/FromTime/Add/AddDuration/Sub proved against calendar specifications (ord, realDay) over the assumed contracts of package time. DaysBetween's float step is not covered (stated gap).",
             ref="DESIGN.md §5 C07", technique="contract-based deductive verification (integer SMT; calendar specification functions; assumed time.Date normalisation contract)"),
 "C09": dict(level="proof", text="err == nil proved equivalent to: non-empty, within the limit, ISO text with 4-9 year digits and consistent separators, naming a real Gregorian day, basic form not disabled; components equal the written ones; zero value and typed error otherwise. All text lengths (exact split 8..15 derived from the pattern), both instantiations.",
             ref="DESIGN.md §5 C09", technique="contract-based deductive verification (regexp encoded exactly as a disjunction of decompositions; integer SMT)"),
 "C10": dict(level="proof", text="Acceptance proved equal to the regexp language (encoded exactly: forced leading M-run + bounded rest), value proved equal to the statement's valuation (1000 per M, group values by counting symbols, either letter case), Valid proved to accept the same texts, zero + typed error otherwise; unbounded in the number of leading Ms.",
             ref="DESIGN.md §5 C10", technique="contract-based deductive verification (integer SMT; exact regexp semantics; quantified leading-run function)"),
 "C11": dict(level="proof", text="MarshalBinary layout, UnmarshalBinary error classes, strictness (err == nil iff 7 bytes, version 1, real calendar date), receiver untouched on error, and the round trip lemma for every real date (all 2^32 years), in bit-vector arithmetic.",
             ref="DESIGN.md §5 C11", technique="contract-based deductive verification (bit-vector SMT)"),
 "C15": dict(level="proof", text="FilterFromTo verified through its body inside lemmaC15 for all nil/non-nil combinations: error iff from after to; Contains iff within the inclusive bounds (interface dispatch over the five filter types, each Contains under its own contract); the answer is unchanged after the caller's variables are overwritten.",
             ref="DESIGN.md §5 C15", technique="contract-based deductive verification (integer SMT, dynamic dispatch over the module's filter types)"),
 "C03": dict(level="proof", text="The code's SemVer pattern (and the pre-release / build sub-patterns used by Valid) is proved language-equal to the semver.org BNF transcribed production by production (regular-language obligations). unmarshalText: err == nil iff non-empty, within the limit, form allowed, in the grammar and all three numbers fit 64 bits; fields equal the decimal values / literal texts of the five captures; zero value + typed error + the right sentinel otherwise; Parse/ParseVersion/ParseTag/DefaultParser/UnmarshalText select the forms. DefaultFormatter/String/StringTag/MarshalText emit [v]major.minor.patch[-pre][+build] exactly. Valid characterised by the two sub-grammars. Gap: the composed statement 'Valid iff the formatted text parses back equal' is not yet a lemma.",
             ref="DESIGN.md §5 C03", technique="contract-based deductive verification (WP over go/ssa; regexp skeleton with functional-consistency axioms; RegLan equivalence by z3 5.1.0; assumed strconv round-trip axiom)"),
 "C08": dict(level="proof", text="newSize, New and Bytes proved for all 12 numeric kinds plus derived int and float types (bit-vector + IEEE floating-point SMT, amd64 float-to-integer conversion modelled): result is exactly number x multiplier (multipliers written from the statement) iff that is a non-negative integer below 2^64, the zero-with-any-known-unit rule, error classes; Bytes succeeds iff exactly representable (integers: <= type maximum; floats: significant bits fit the mantissa). Text: unmarshalText proved against the pure-function results of prepareNumber (which is itself proved to yield only digits, for all inputs, with a loop invariant over exact UTF-8 decoding). Gap: the statement's description of which separators prepareNumber ignores is not yet proved (bounded lemma parked).",
             ref="DESIGN.md §5 C08", technique="contract-based deductive verification (bit-vector/FP SMT per monomorphised instance; loop invariants; pure functions as uninterpreted applications)"),
 "C13": dict(level="proof", text="Shorten proved to return value x 1024^k == size with k the largest exponent (<= 6) dividing the size (units from the statement's table); DefaultFormatter proved to append exactly: the digits of the value, a separator after every digit whose distance to the end is a multiple of three (none / space / &nbsp; by flags), then the unit; String/PrettyString/PrettyHTML are those renderings. All 2^64 sizes, unbounded prefix.",
             ref="DESIGN.md §5 C13", technique="contract-based deductive verification (integer SMT; exact unrolling of the digit loop with unwinding obligation; structural comparison of append chains)"),
 "C14": dict(level="proof", text="Every comparison returns -1, 0 or 1; equal core and equal pre-release give 0; Ver.Compare never reads Build (syntactic frame check) and its result is a function of core and pre-release only; Latest returns v unless Compare is -1; the six string helpers return an error exactly when either text is rejected for their form and otherwise the value-level result; Next* panic iff the component is 2^64-1 and their results are plain releases comparing +1 against the receiver. Gap: antisymmetry for equal-length pre-releases is not proved.",
             ref="DESIGN.md §5 C14", technique="contract-based deductive verification (loop invariant for the byte scan; pure functions as uninterpreted applications with extensionality; bit-vector contracts for Next*)"),
 "C16": dict(level="proof", text="For each of the five DefaultFormatters and ID.URN: the result's first len(buf) bytes equal the caller's bytes at entry, the appended bytes are the format-specific content function (independent of buf), the result is the same backing region or fresh memory, and no byte of pre-existing memory outside buf[len(buf):cap(buf)] changes (frame obligation), for every prefix length, capacity and flag word. Date: content claimed for years 0..999999999.",
             ref="DESIGN.md §5 C16", technique="contract-based deductive verification (region-based byte heap, append modelled exactly, frame obligations; loop invariants for roman)"),
 "C19": dict(level="proof", text="Proved for all pairs of 63-bit draws: version 4 / variant 10; lock discipline (random only read with randomMutex held, released on every exit) as ghost-state obligations. 'No duplicate within a run' is probabilistic / whole-history and is not decided (stated gap).",
             ref="DESIGN.md §5 C19, §7", technique="contract-based deductive verification (bit-vector postcondition, ghost lock-ownership obligations)"),
 "C12": dict(level="proof", text="encoding/json's Decoder is modelled as a ghost token stream of the input (assumed contract, jsonschema.go). Proved for every token stream, rule word and MaxObjectKeys: first-token dispatch and rule gates; number and string forms succeed iff the document is exactly one token whose text satisfies the text rules (value as the text rules give); the object loop (invariants over the token stream) succeeds only when the object holds exactly one case-insensitive value member with a number and exactly one unit member with a string, wherever they stand, the result being newSize of that pair; no other key under RuleDisallowUnknownKeys; at most MaxObjectKeys keys (0 = unlimited); nested unknown members are skipped by a depth-counting loop proved to return to the same level; documented sentinels for missing/duplicate/too-big/unexpected-key/wrong-type; a closing brace and end of input are required. Not proved: the converse (every such object is accepted) and the wording of error messages.",
             ref="DESIGN.md §5 C12", technique="contract-based deductive verification (loop invariants with existential witnesses over a ghost token stream; integer SMT; assumed contract of encoding/json.Decoder.Token/More)"),
 "C17": dict(level="proof", text="For all eight Unmarshal*/Scan receivers: *receiver == old(*receiver) whenever an error is returned (and only *receiver may change). For every parser entry point (both instantiations): no byte of memory existing at entry changes (heapSame frame obligation), results are scalars or freshly copied strings in the memory model, zero value on error. String and []byte instantiations are verified against the same functional contract, so their values agree. Not decided: equality of error message texts (messages are abstracted), and encoding/json / database/sql callers beyond the methods.",
             ref="DESIGN.md §5 C17", technique="contract-based deductive verification (frame obligations on a region-based byte heap; per-instantiation verification against one contract)"),
 "C18": dict(level="proof", text="Every index, slice, nil-dereference, division, type assertion, explicit panic and callee precondition in every function under contract of date, roman, sem, size and uu (parsers, validators, comparers, both instantiations) is an obligation discharged for all inputs, rule words and MaxInputLength values; each DefaultParser returns its ErrInputTooLong (built from a zero-valued input) iff the limit is non-zero and exceeded, and never rejects for length otherwise; loops have unwinding obligations or invariants, those with decreases clauses terminate. Not decided: allocation volume, and termination of loops without a decreases clause.",
             ref="DESIGN.md §5 C18", technique="contract-based deductive verification (language-level safety obligations generated for every SSA instruction that can panic; integer / bit-vector SMT)"),
 "C04": dict(level="proof", text="Round trips as lemmas over the contracts of the real Marshal*/Unmarshal* code, for all 2^64 sizes and every setting of the three marshalling switches: MarshalText then UnmarshalText; MarshalJSON (number, quoted-string and object forms) then UnmarshalJSON under the default rule; String() and PrettyString() then UnmarshalText. The chain is: the marshalled bytes have the stated shape (proved from the formatter's append chain); prepareNumber's number is the digit subsequence of the leading digit/space run and its unit the rest (loop invariant with a recursive counting function); strconv.ParseUint(FormatUint(v)) == v (trusted); value x multiplier == size (from Shorten's exactness). For JSON the tokenisation of the three emitted shapes is an explicit trusted axiom about encoding/json (axiomJSONNumber/String/Object). Assumed MaxInputLength 0 or >= 41 and MaxObjectKeys 0 or >= 2. Not decided: nesting inside encoding/json documents (struct fields, slices, maps) - that part is encoding/json's own behaviour.",
             ref="DESIGN.md §5 C04", technique="contract-based deductive verification (staged lemmas as Go harness functions over contracts; recursive spec function; trusted axioms for strconv round trip and encoding/json tokenisation of three shapes)"),
 "C06": dict(level="proof", text="Section 11 is written from the statement in first-difference form (prec11: release above pre-release; otherwise the identifiers holding the first differing byte decide: numeric ones by length then digit, numeric below alphanumeric, alphanumeric ones in ASCII order with a proper prefix below; a text that is a proper prefix of the other is below). Proved for texts of unbounded length: comparePreRelease's loop finds the first difference (invariant over firstDiff), its result is compareIdentifiers of the two identifiers (strings.LastIndexByte/IndexByte by their defining axioms), compareIdentifiers equals the identifier order (strings.Compare as byte-wise lexicographic order), and lemmas lemmaC06Ordered / lemmaC06Precedence / lemmaC06Version compose them: DefaultComparePreRelease(a,b) == prec11(a,b) and Ver.Compare == core order then prec11, for identifiers that are non-empty with no leading zero in numeric ones, outside the pinned a01/a1 class (both alphanumeric, digits only from the first difference on). Build is never read (syntactic frame check); the six string helpers and Latest* return the value-level result (C14 clauses). Gap: that every text accepted by the pre-release grammar satisfies the identifier well-formedness hypothesis is argued from the grammar, not proved.",
             ref="DESIGN.md §5 C06, §0.3 D5", technique="contract-based deductive verification (loop invariant over an axiomatised first-difference function; pure functions as uninterpreted applications whose contracts are assumed for specification-level applications; staged lemmas)"),
}

not_applicable = {}
ALL = ["C%02d" % i for i in range(1, 21)]
for p in ALL:
    if p not in claimed:
        not_applicable[p] = "contracts for this property are not yet written in this revision of /verif (work in progress; see DESIGN.md §5 for the plan)"

manifest = {
 "version": 1,
 "setup_cmd": "cd /verif/govc && GOFLAGS=-mod=vendor GOPROXY=off GOSUMDB=off GOTOOLCHAIN=local go build -o /verif/bin/govc .",
 "hooks": {
   "guard": "verif",
   "enable": "go build -tags verif (govc loads /repo with BuildFlags -tags=verif; the contract files are /repo/<pkg>/zz_contracts_verif.go)",
   "baseline_off_cmd": "cd /repo && GOFLAGS=-mod=mod GOPROXY=off GOSUMDB=off go test -vet=off -count=1 ./...",
   "source_commits": hook_commits,
   "add_only": True,
 },
 "engines": [{"name": "govc", "path": "/verif/govc", "serves_properties": sorted(claimed), "kind_free_text": "VC generator over go/ssa + SMT solver race (contract-based deductive verification)"}],
 "checks": [],
 "notes": "All checks use one engine (govc). Contracts live in /repo/<pkg>/zz_contracts_verif.go behind build tag verif. Known findings: /verif/known-findings.txt.",
 "not_applicable": [{"property_id": p, "reason": r} for p, r in sorted(not_applicable.items())],
}
for p in sorted(claimed):
    c = claimed[p]
    manifest["checks"].append({
      "property_id": p,
      "quick_cmd": "/verif/check.sh %s quick" % p,
      "thorough_cmd": "/verif/check.sh %s thorough" % p,
      "evidence_file": "/verif/evidence/%s.json" % p,
      "replay_cmd_template": "/verif/bin/govc replay {path}",
      "engine": "govc",
      "level_claimed": {"category": c["level"], "text": c["text"], "design_ref": c["ref"]},
      "level_note": TRUST,
      "technique": c["technique"],
    })
json.dump(manifest, open("/verif/MANIFEST.json", "w"), indent=1)
print("manifest: %d checks, %d not_applicable" % (len(manifest["checks"]), len(manifest["not_applicable"])))
