#!/bin/sh
# usage: check.sh <property-id> [quick|thorough]
# Runs the contract verifier for one property against /repo's current working tree.
set -u
PROP="$1"
TIER="${2:-quick}"
export GOFLAGS=-mod=mod GOPROXY=off GOSUMDB=off GOTOOLCHAIN=local
cd /verif
if [ ! -x /verif/bin/govc ]; then
  (cd /verif/govc && GOFLAGS=-mod=vendor go build -o /verif/bin/govc .) || exit 2
fi
/verif/bin/govc check -prop "$PROP" -tier "$TIER" -repo "${GOVC_REPO:-/repo}" -out "/verif/evidence/$PROP.json"
RC=$?
if [ "$TIER" = thorough ] && [ $RC -eq 0 ]; then
  # assumption sanity run and must-fail self-test on scratch copies (adds to the evidence; never raises a violation)
  python3 /verif/tools/thorough_extras.py "$PROP" "/verif/evidence/$PROP.json" || true
fi
exit $RC
