#!/bin/sh
# usage: check.sh <property-id> [quick|thorough]
# Runs the contract verifier for one property against /repo's current working tree.
set -u
PROP="$1"
TIER="${2:-quick}"
export GOFLAGS=-mod=mod GOPROXY=off GOSUMDB=off GOTOOLCHAIN=local
cd /verif
if [ ! -x /verif/bin/govc ]; then
  (cd /verif/govc && GOFLAGS=-mod=vendor go build -o /verif/bin/govc .) || exit 2
fi
exec /verif/bin/govc check -prop "$PROP" -tier "$TIER" -repo "${GOVC_REPO:-/repo}" -out "/verif/evidence/$PROP.json"
