// axiomtest: an empirical check (NOT a proof) of the assumed contracts about encoding/json and strconv that the
// size contracts rely on: the ghost token-stream model of json.Decoder (govc/jsonschema.go) and the three
// tokenisation axioms axiomJSONNumber/String/Object plus the strconv round trip. It runs the real standard
// library on generated documents and compares with what the model predicts. Exit status 1 on any disagreement.
package main

import (
	"bytes"
	"encoding/json"
	"fmt"
	"io"
	"math/rand"
	"os"
	"strconv"
	"strings"
)

type tok struct {
	kind int // 1 '{' 2 '}' 3 '[' 4 ']' 5 string 6 number 7 bool 8 null
	text string
}

func kindOf(t json.Token) (int, string) {
	switch v := t.(type) {
	case json.Delim:
		return map[rune]int{'{': 1, '}': 2, '[': 3, ']': 4}[rune(v)], string(rune(v))
	case string:
		return 5, v
	case json.Number:
		return 6, string(v)
	case bool:
		return 7, fmt.Sprint(v)
	case nil:
		return 8, "null"
	}
	return 0, ""
}

// tokens reads the document with Token() only: the model's (ntok, kinds, texts, garbage).
func tokens(doc []byte) (ts []tok, garbage bool) {
	d := json.NewDecoder(bytes.NewReader(doc))
	d.UseNumber()
	for {
		t, err := d.Token()
		if err != nil {
			return ts, err != io.EOF
		}
		k, s := kindOf(t)
		ts = append(ts, tok{k, s})
	}
}

var failures int

func fail(doc []byte, format string, a ...any) {
	failures++
	if failures < 20 {
		fmt.Printf("MODEL MISMATCH on %q: %s\n", doc, fmt.Sprintf(format, a...))
	}
}

// checkModel replays the ghost automaton of jsonschema.go against the real decoder, calling More() before every
// Token() as the size parser may do at any point.
func checkModel(doc []byte) {
	ts, garbage := tokens(doc)
	n := len(ts)
	if n > len(doc) {
		fail(doc, "ntok %d > len %d", n, len(doc))
	}
	d := json.NewDecoder(bytes.NewReader(doc))
	d.UseNumber()
	pos, depth := 0, 0
	inObj, atKey := false, false
	for step := 0; step <= n; step++ {
		// More() before the last token: the next token is not a closing delimiter (after it: unspecified)
		got := d.More()
		if pos < n && got != (ts[pos].kind != 2 && ts[pos].kind != 4) {
			fail(doc, "More() at pos %d = %v, model %v", pos, got, !got)
		}
		t, err := d.Token()
		if pos >= n {
			if err == nil {
				fail(doc, "Token() delivered a token past ntok")
			}
			if (err == io.EOF) != !garbage {
				fail(doc, "isEOF %v but garbage %v", err == io.EOF, garbage)
			}
			return
		}
		if err != nil {
			fail(doc, "Token() failed at pos %d < ntok %d: %v", pos, n, err)
			return
		}
		k, s := kindOf(t)
		if k != ts[pos].kind || s != ts[pos].text {
			fail(doc, "token %d differs between the two readings", pos)
		}
		isOpen, isClose := k == 1 || k == 3, k == 2 || k == 4
		// grammar facts assumed by the model
		if depth == 0 && isClose {
			fail(doc, "closing delimiter at depth 0")
		}
		if depth == 1 && inObj && atKey && k != 5 && k != 2 {
			fail(doc, "key position holds kind %d", k)
		}
		if depth == 1 && inObj && !atKey && isClose {
			fail(doc, "value position holds a closing delimiter")
		}
		isKey := depth == 1 && inObj && atKey && k == 5
		isCloseTop := depth == 1 && inObj && atKey && k == 2
		_, _ = isKey, isCloseTop
		// transitions
		nd := depth
		if isOpen {
			nd++
		} else if isClose {
			nd--
		}
		nInObj, nAtKey := inObj, atKey
		switch {
		case depth == 0 && isOpen:
			nInObj, nAtKey = k == 1, k == 1
		case depth == 1 && inObj:
			if atKey {
				nAtKey = false
			} else {
				nAtKey = !isOpen
			}
		case depth == 2 && isClose:
			nAtKey = inObj
		}
		depth, inObj, atKey = nd, nInObj, nAtKey
		pos++
	}
}

func plainText(r *rand.Rand, n int) string {
	var sb strings.Builder
	for i := 0; i < n; i++ {
		c := byte(32 + r.Intn(95))
		if c == '"' || c == '\\' {
			c = 'x'
		}
		sb.WriteByte(c)
	}
	return sb.String()
}

func checkAxioms(r *rand.Rand) {
	vals := []uint64{0, 1, 9, 10, 99, 100, 1023, 1024, 1<<32 - 1, 1 << 32, 1<<63 - 1, 1 << 63, 1<<64 - 1}
	for i := 0; i < 2000; i++ {
		vals = append(vals, r.Uint64()>>uint(r.Intn(64)))
	}
	for _, v := range vals {
		d := strconv.FormatUint(v, 10)
		// strconv round trip (LemmaParseFormat) and the canonical-text axiom
		if p, err := strconv.ParseUint(d, 10, 64); err != nil || p != v {
			fail([]byte(d), "ParseUint(FormatUint(v)) != v")
		}
		// axiomJSONNumber
		ts, g := tokens([]byte(d))
		if len(ts) != 1 || g || ts[0].kind != 6 || ts[0].text != d {
			fail([]byte(d), "number axiom")
		}
		// axiomJSONString
		u := plainText(r, r.Intn(12))
		doc := `"` + u + `"`
		ts, g = tokens([]byte(doc))
		if len(ts) != 1 || g || ts[0].kind != 5 || ts[0].text != u {
			fail([]byte(doc), "string axiom")
		}
		// axiomJSONObject
		doc = `{"value":` + d + `,"unit":"` + u + `"}`
		ts, g = tokens([]byte(doc))
		want := []tok{{1, "{"}, {5, "value"}, {6, d}, {5, "unit"}, {5, u}, {2, "}"}}
		if len(ts) != 6 || g {
			fail([]byte(doc), "object axiom: %d tokens, garbage %v", len(ts), g)
		} else {
			for i := range want {
				if ts[i] != want[i] {
					fail([]byte(doc), "object axiom: token %d", i)
				}
			}
		}
		checkModel([]byte(doc))
	}
}

func randomValue(r *rand.Rand, depth int) string {
	switch k := r.Intn(8); {
	case k == 0 && depth < 4:
		var parts []string
		for i, n := 0, r.Intn(4); i < n; i++ {
			key := []string{"value", "unit", "VALUE", "Unit", "x", "", "unİt", "a b"}[r.Intn(8)]
			parts = append(parts, strconv.Quote(key)+":"+randomValue(r, depth+1))
		}
		return "{" + strings.Join(parts, ",") + "}"
	case k == 1 && depth < 4:
		var parts []string
		for i, n := 0, r.Intn(4); i < n; i++ {
			parts = append(parts, randomValue(r, depth+1))
		}
		return "[" + strings.Join(parts, ",") + "]"
	case k == 2:
		return strconv.Quote(plainText(r, r.Intn(6)))
	case k == 3:
		return []string{"true", "false", "null"}[r.Intn(3)]
	case k == 4:
		return []string{"1.5", "-3", "1e9", "0", "-0.0"}[r.Intn(5)]
	default:
		return strconv.FormatUint(r.Uint64()>>uint(r.Intn(64)), 10)
	}
}

func main() {
	n := 20000
	if len(os.Args) > 1 {
		n, _ = strconv.Atoi(os.Args[1])
	}
	r := rand.New(rand.NewSource(1))
	checkAxioms(r)
	junk := []string{"", " ", "}", "]", ",", ":", "x", "\"", "{", "[", "1 2", "{}{}", "tru", "{\"a\"}", "{\"a\":}", "{,}", "[1,]", "\xff"}
	for i := 0; i < n; i++ {
		doc := randomValue(r, 0)
		switch r.Intn(6) {
		case 0: // truncate
			doc = doc[:r.Intn(len(doc)+1)]
		case 1: // append junk
			doc += junk[r.Intn(len(junk))]
		case 2: // corrupt one byte
			if len(doc) > 0 {
				b := []byte(doc)
				b[r.Intn(len(b))] = "{}[],:\" x1"[r.Intn(10)]
				doc = string(b)
			}
		case 3:
			doc = " " + doc + "\n"
		}
		checkModel([]byte(doc))
	}
	for _, j := range junk {
		checkModel([]byte(j))
	}
	if failures > 0 {
		fmt.Printf("axiomtest: %d disagreements between encoding/json and the assumed model\n", failures)
		os.Exit(1)
	}
	fmt.Printf("axiomtest: encoding/json and strconv agree with the assumed contracts on %d generated documents\n", n+2013*2)
}
