module axiomtest

go 1.23
