package main

// Replay of a solver counterexample against the real code: the model is turned into Go arguments, the real
// function is called in an in-package test injected with `go test -overlay` (nothing is written into /repo),
// and the violated clause is re-evaluated by the same specification evaluator on the concrete inputs and the
// real outputs.

import (
	"encoding/hex"
	"encoding/json"
	"fmt"
	"go/types"
	"math/big"
	"os"
	"os/exec"
	"path/filepath"
	"sort"
	"strings"
	"time"

	"golang.org/x/tools/go/ssa"
)

type dumpVal struct {
	I     string              `json:"i,omitempty"`
	B     *bool               `json:"b,omitempty"`
	S     *string             `json:"s,omitempty"`     // hex of string bytes
	Bytes *string             `json:"bytes,omitempty"` // hex of []byte
	Nil   *bool               `json:"nil,omitempty"`
	F     map[string]*dumpVal `json:"f,omitempty"`
	P     *dumpVal            `json:"p,omitempty"`
	Err   *dumpErr            `json:"err,omitempty"`
	Other string              `json:"other,omitempty"`
}

type dumpErr struct {
	Nil      bool            `json:"nil"`
	Is       map[string]bool `json:"is"`
	As       map[string]bool `json:"as"`
	InputLen int             `json:"inputLen"`
	Msg      string          `json:"msg"`
}

type replayOut struct {
	Panic     string     `json:"panic"`
	Results   []*dumpVal `json:"results"`
	ArgsAfter []*dumpVal `json:"argsAfter"`
}

func modelInt(m map[string]string, key string) (*big.Int, bool) {
	v, ok := m[key]
	if !ok {
		return nil, false
	}
	return smtInt(v)
}

func modelBool(m map[string]string, key string) bool { return m[key] == "true" }

func modelSeq(m map[string]string, key string) ([]byte, bool) {
	n, ok := modelInt(m, key+".len")
	if !ok || !n.IsInt64() || n.Int64() < 0 {
		return nil, false
	}
	l := int(n.Int64())
	if l > modelBytes_ {
		return nil, false // longer than the bytes we asked the solver for
	}
	b := make([]byte, l)
	for i := 0; i < l; i++ {
		v, ok := modelInt(m, fmt.Sprintf("%s[%d]", key, i))
		if ok {
			b[i] = byte(v.Int64())
		}
	}
	return b, true
}

const modelBytes_ = modelBytes

func signedOf(v *big.Int, t IntTy, bv bool) *big.Int {
	if bv && t.Signed {
		return bvSigned(v, t.W)
	}
	return v
}

// goLiteral renders the model's value of a parameter as Go source (package-local names).
func (x *Exec) goLiteral(t types.Type, key string, m map[string]string, qual types.Qualifier) (string, error) {
	ts := types.TypeString(t, qual)
	if ity, ok := intTyOf(t); ok {
		v, ok := modelInt(m, key)
		if !ok {
			v = big.NewInt(0)
		}
		v = signedOf(v, ity, x.o.M.BV)
		return fmt.Sprintf("%s(%s)", ts, v.String()), nil
	}
	if isBoolType(t) {
		return fmt.Sprintf("%s(%v)", ts, modelBool(m, key)), nil
	}
	if isStringType(t) {
		b, ok := modelSeq(m, key)
		if !ok {
			return "", fmt.Errorf("string %s too long for replay", key)
		}
		return fmt.Sprintf("%s(%q)", ts, string(b)), nil
	}
	if isByteSlice(t) {
		if modelBool(m, key+".nil") {
			return fmt.Sprintf("%s(nil)", ts), nil
		}
		b, ok := modelSeq(m, key)
		if !ok {
			return "", fmt.Errorf("byte slice %s too long for replay", key)
		}
		cp := len(b)
		if c, ok := modelInt(m, key+".cap"); ok && c.IsInt64() && c.Int64() >= int64(len(b)) && c.Int64() <= int64(len(b))+64 {
			cp = int(c.Int64())
		}
		return fmt.Sprintf("%s(append(make([]byte, 0, %d), %q...))", ts, cp, string(b)), nil
	}
	switch u := t.Underlying().(type) {
	case *types.Struct:
		if isTimeType(t) {
			y, _ := modelInt(m, key+".Y")
			mo, _ := modelInt(m, key+".M")
			d, _ := modelInt(m, key+".D")
			if modelBool(m, key+".zero") || y == nil {
				return "time.Time{}", nil
			}
			return fmt.Sprintf("time.Date(%s, time.Month(%s), %s, 12, 0, 0, 0, time.UTC)", y, mo, d), nil
		}
		var fs []string
		for i := 0; i < u.NumFields(); i++ {
			f := u.Field(i)
			l, err := x.goLiteral(f.Type(), key+"."+f.Name(), m, qual)
			if err != nil {
				return "", err
			}
			fs = append(fs, f.Name()+": "+l)
		}
		return fmt.Sprintf("%s{%s}", ts, strings.Join(fs, ", ")), nil
	case *types.Pointer:
		if modelBool(m, key+".nil") {
			return fmt.Sprintf("(%s)(nil)", ts), nil
		}
		l, err := x.goLiteral(u.Elem(), "*"+key, m, qual)
		if err != nil {
			return "", err
		}
		if _, isStruct := u.Elem().Underlying().(*types.Struct); isStruct {
			return "&" + l, nil
		}
		return fmt.Sprintf("func() %s { v := %s; return &v }()", ts, l), nil
	}
	return "", fmt.Errorf("parameter %s of type %s is not supported by the replay generator", key, ts)
}

const replayHelpers = `
func verifDump(v reflect.Value) map[string]any {
	switch v.Kind() {
	case reflect.Int, reflect.Int8, reflect.Int16, reflect.Int32, reflect.Int64:
		return map[string]any{"i": strconv.FormatInt(v.Int(), 10)}
	case reflect.Uint, reflect.Uint8, reflect.Uint16, reflect.Uint32, reflect.Uint64:
		return map[string]any{"i": strconv.FormatUint(v.Uint(), 10)}
	case reflect.Bool:
		return map[string]any{"b": v.Bool()}
	case reflect.String:
		return map[string]any{"s": hex.EncodeToString([]byte(v.String()))}
	case reflect.Slice:
		if v.Type().Elem().Kind() == reflect.Uint8 {
			return map[string]any{"bytes": hex.EncodeToString(v.Bytes()), "nil": v.IsNil()}
		}
	case reflect.Struct:
		f := map[string]any{}
		for i := 0; i < v.NumField(); i++ {
			f[v.Type().Field(i).Name] = verifDump(v.Field(i))
		}
		return map[string]any{"f": f}
	case reflect.Ptr:
		if v.IsNil() {
			return map[string]any{"nil": true}
		}
		return map[string]any{"nil": false, "p": verifDump(v.Elem())}
	case reflect.Interface:
		if v.IsNil() {
			return map[string]any{"nil": true}
		}
	}
	return map[string]any{"other": v.Type().String()}
}
`

// Replay runs the real function on the model's input and re-evaluates the violated clause.
func (w *World) Replay(ob *Obligation, repo string) *ReplayResult {
	res := &ReplayResult{Inputs: filterModel(ob.Result.Model)}
	x := ob.x
	fn := x.fn
	m := ob.Result.Model
	if fn.Parent() != nil {
		res.Note = "replay of closures is not supported"
		return res
	}
	pk := x.pk
	qual := func(p *types.Package) string {
		if p == pk.P.Types {
			return ""
		}
		return p.Name()
	}
	// arguments
	var decls, argNames []string
	usesTime := false
	for i, p := range fn.Params {
		lit, err := x.goLiteral(p.Type(), p.Name(), m, qual)
		if err != nil {
			res.Note = err.Error()
			return res
		}
		if strings.Contains(lit, "time.") {
			usesTime = true
		}
		decls = append(decls, fmt.Sprintf("\ta%d := %s", i, lit))
		argNames = append(argNames, fmt.Sprintf("a%d", i))
	}
	// configuration
	var cfg []string
	for k, v := range m {
		if !strings.HasPrefix(k, "cfg."+pk.Name+".") {
			continue
		}
		name := strings.TrimPrefix(k, "cfg."+pk.Name+".")
		obj := pk.P.Types.Scope().Lookup(name)
		if obj == nil {
			continue
		}
		if ity, ok := intTyOf(obj.Type()); ok {
			n, _ := smtInt(v)
			cfg = append(cfg, fmt.Sprintf("\t%s = %s(%s)", name, types.TypeString(obj.Type(), qual), signedOf(n, ity, x.o.M.BV)))
		} else if isBoolType(obj.Type()) {
			cfg = append(cfg, fmt.Sprintf("\t%s = %v", name, v == "true"))
		}
	}
	sort.Strings(cfg)
	// call expression
	fname := fn.Name()
	if o := fn.Origin(); o != nil {
		fname = o.Name()
	}
	call := ""
	args := argNames
	if fn.Signature.Recv() != nil {
		call = fmt.Sprintf("%s.%s", argNames[0], fname)
		args = argNames[1:]
	} else {
		call = fname
		if ta := fn.TypeArgs(); len(ta) > 0 {
			var ts []string
			for _, t := range ta {
				ts = append(ts, types.TypeString(t, qual))
			}
			call += "[" + strings.Join(ts, ", ") + "]"
		}
	}
	nres := fn.Signature.Results().Len()
	var lhs, dumps []string
	for i := 0; i < nres; i++ {
		lhs = append(lhs, fmt.Sprintf("r%d", i))
		if isErrorType(fn.Signature.Results().At(i).Type()) {
			dumps = append(dumps, fmt.Sprintf("map[string]any{\"err\": verifDumpErr(r%d)}", i))
		} else {
			dumps = append(dumps, fmt.Sprintf("verifDump(reflect.ValueOf(&r%d).Elem())", i))
		}
	}
	assign := ""
	if nres > 0 {
		assign = strings.Join(lhs, ", ") + " := "
	}
	var after []string
	for i := range fn.Params {
		after = append(after, fmt.Sprintf("verifDump(reflect.ValueOf(&a%d).Elem())", i))
	}
	// error dumper for this package
	var isLines, asLines []string
	for _, s := range w.Sentinels {
		if strings.HasPrefix(s, pk.Name+".") {
			n := strings.TrimPrefix(s, pk.Name+".")
			isLines = append(isLines, fmt.Sprintf("\t\tis[%q] = errors.Is(err, %s)", s, n))
		}
	}
	for _, tkey := range w.ErrTypes {
		base := strings.TrimPrefix(tkey, "*")
		if !strings.HasPrefix(base, pk.Name+".") {
			continue
		}
		texpr := strings.ReplaceAll(tkey, pk.Name+".", "")
		texpr = strings.ReplaceAll(texpr, "[]byte", "[]byte")
		v := fmt.Sprintf("t%d", len(asLines))
		line := fmt.Sprintf("\t\tvar %s %s\n\t\tas[%q] = errors.As(err, &%s)", v, texpr, tkey, v)
		if strings.Contains(tkey, "ParseError[") || strings.Contains(tkey, "NumberFormatError[") {
			line += fmt.Sprintf("\n\t\tif as[%q] && inputLen < 0 { inputLen = len(%s.Input) }", tkey, v)
		}
		asLines = append(asLines, line)
	}
	imports := []string{`"encoding/hex"`, `"encoding/json"`, `"errors"`, `"fmt"`, `"reflect"`, `"strconv"`, `"testing"`}
	if usesTime {
		imports = append(imports, `"time"`)
	}
	src := fmt.Sprintf(`//go:build verif

package %s

import (
	%s
)

var _ = errors.New
var _ = hex.EncodeToString
%s
func verifDumpErr(err error) map[string]any {
	is := map[string]bool{}
	as := map[string]bool{}
	inputLen := -1
	if err != nil {
%s
%s
	}
	msg := ""
	if err != nil {
		msg = err.Error()
	}
	return map[string]any{"nil": err == nil, "is": is, "as": as, "inputLen": inputLen, "msg": msg}
}

func TestVerifReplay(t *testing.T) {
%s
%s
	out := map[string]any{"panic": ""}
	func() {
		defer func() {
			if r := recover(); r != nil {
				out["panic"] = fmt.Sprint(r)
			}
		}()
		%s%s(%s)
		out["results"] = []any{%s}
	}()
	out["argsAfter"] = []any{%s}
	b, _ := json.Marshal(out)
	fmt.Println("VERIFREPLAY " + string(b))
}
`, pk.Name, strings.Join(imports, "\n\t"), replayHelpers, strings.Join(isLines, "\n"), strings.Join(asLines, "\n"),
		strings.Join(cfg, "\n"), strings.Join(decls, "\n"), assign, call, strings.Join(args, ", "), strings.Join(dumps, ", "), strings.Join(after, ", "))
	res.TestFile = src
	res.Package = strings.TrimPrefix(strings.TrimPrefix(pk.Path, modulePath), "/")
	out, err := runReplayTest(repo, res.Package, src)
	if err != nil {
		res.Note = err.Error()
		return res
	}
	idx := strings.Index(out, "VERIFREPLAY ")
	if idx < 0 {
		res.Note = "replay test did not run: " + truncate(out, 1500)
		return res
	}
	line := out[idx+len("VERIFREPLAY "):]
	if nl := strings.Index(line, "\n"); nl >= 0 {
		line = line[:nl]
	}
	res.Output = line
	var ro struct {
		Panic     string            `json:"panic"`
		Results   []json.RawMessage `json:"results"`
		ArgsAfter []json.RawMessage `json:"argsAfter"`
	}
	if err := json.Unmarshal([]byte(line), &ro); err != nil {
		res.Note = "cannot parse replay output: " + err.Error()
		return res
	}
	// safety obligations: confirmed iff the real code panicked
	switch ob.Kind {
	case "bounds", "nil", "div", "typeassert", "shift", "makeslice", "callee-panic", "unwind":
		if ro.Panic != "" {
			res.Confirmed = true
			res.Note = "real code panicked on the model's input: " + ro.Panic
		} else {
			res.Note = "real code did not panic on the model's input (model did not replay)"
		}
		return res
	case "panic":
		if ro.Panic != "" {
			res.Confirmed = true
			res.Note = "real code panicked on the model's input: " + ro.Panic
			return res
		}
	}
	if ob.Clause == nil {
		res.Note = "obligation kind " + ob.Kind + " has no clause to re-evaluate on the real result"
		return res
	}
	if ro.Panic != "" {
		res.Confirmed = true
		res.Note = "real code panicked on the model's input instead of returning: " + ro.Panic
		return res
	}
	verdict, note := w.reevaluate(ob, ro.Results, ro.ArgsAfter)
	res.Note = note
	res.Confirmed = verdict == "false"
	return res
}

// reevaluate: evaluate the clause on the model's input and the real outputs. Returns "true", "false" or "unknown".
func (w *World) reevaluate(ob *Obligation, results, argsAfter []json.RawMessage) (verdict, note string) {
	defer func() {
		if r := recover(); r != nil {
			verdict, note = "unknown", fmt.Sprintf("re-evaluation failed: %v", r)
		}
	}()
	x0 := ob.x
	y := w.newExec(x0.pk, x0.fn, x0.fc)
	o := y.o
	fn := x0.fn
	m := ob.Result.Model
	entry := &State{Guard: o.True(), Regs: map[ssa.Value]Val{}, Cells: map[*Object]Val{}, Ghost: map[string]Val{}}
	entry.H = o.ConstArray(o.HeapSort(), o.ConstArray(o.ByteArr(), o.ConstI(tyByte, 0)))
	nextReg := int64(1)
	var sliceParams []struct {
		idx int
		sv  SliceVal
	}
	for i, p := range fn.Params {
		v, err := y.concreteFromModel(entry, p.Type(), p.Name(), m, &nextReg)
		if err != nil {
			return "unknown", err.Error()
		}
		if sv, ok := v.(SliceVal); ok {
			sliceParams = append(sliceParams, struct {
				idx int
				sv  SliceVal
			}{i, sv})
		}
		y.params[p.Name()] = SVal{V: v, T: p.Type()}
	}
	entry.Alloc = o.Int(nextReg)
	// configuration variables get their model values
	for k, v := range m {
		if strings.HasPrefix(k, "cfg.") {
			key := strings.TrimPrefix(k, "cfg.")
			parts := strings.SplitN(key, ".", 2)
			pk := w.Pkgs[parts[0]]
			if pk == nil {
				continue
			}
			obj := pk.P.Types.Scope().Lookup(parts[1])
			if obj == nil {
				continue
			}
			if ity, ok := intTyOf(obj.Type()); ok {
				n, _ := smtInt(v)
				y.globals[key] = o.Const(ity, signedOf(n, ity, o.M.BV))
			} else if isBoolType(obj.Type()) {
				y.globals[key] = o.Bool(v == "true")
			}
		}
	}
	y.entry = entry.clone()
	post := entry.clone()
	// memory after the call: contents of the byte-slice arguments
	for _, sp := range sliceParams {
		var d dumpVal
		if json.Unmarshal(argsAfter[sp.idx], &d) == nil && d.Bytes != nil {
			b, _ := hex.DecodeString(*d.Bytes)
			arr := o.Select(post.H, sp.sv.Reg)
			for i, c := range b {
				arr = o.Store(arr, o.IdxAdd(sp.sv.Off, o.Idx(int64(i))), o.ConstI(tyByte, int64(c)))
			}
			post.H = o.Store(post.H, sp.sv.Reg, arr)
		}
	}
	for i, p := range fn.Params {
		if pv, ok := y.params[p.Name()].V.(PtrVal); ok && pv.Obj != nil && i < len(argsAfter) {
			var d dumpVal
			if json.Unmarshal(argsAfter[i], &d) == nil && d.P != nil {
				v, err := y.concreteFromDump(post, p.Type().Underlying().(*types.Pointer).Elem(), d.P, &nextReg)
				if err == nil {
					post.Cells[pv.Obj] = v
				}
			}
		}
	}
	env := y.specEnv(y.entry, post)
	names := resultNames(fn)
	res := fn.Signature.Results()
	for i := 0; i < res.Len(); i++ {
		var d dumpVal
		if i >= len(results) || json.Unmarshal(results[i], &d) != nil {
			return "unknown", "missing result in replay output"
		}
		v, err := y.concreteFromDump(post, res.At(i).Type(), &d, &nextReg)
		if err != nil {
			return "unknown", err.Error()
		}
		for _, n := range names[i] {
			env.vars[n] = SVal{V: v, T: res.At(i).Type()}
		}
	}
	post.Alloc = o.Int(nextReg)
	env.post = post
	t := y.evalClause(env, ob.Clause)
	if t.IsTrue() {
		return "true", "the real result satisfies the clause on the model's input (model did not replay; the assumed contracts or the encoding are wrong for this input)"
	}
	if t.IsFalse() {
		return "false", "the real result violates the clause"
	}
	// not decided by folding (uninterpreted symbols): ask a solver whether the clause can hold
	s := o.NewScript()
	for _, a := range y.assumes {
		s.Assert(a)
	}
	s.Assert(t)
	fnm := filepath.Join(scratch(), fmt.Sprintf("reeval%d.smt2", time.Now().UnixNano()))
	os.WriteFile(fnm, []byte(s.String(false, nil)), 0o644)
	defer os.Remove(fnm)
	st, _, _ := runSolver(contextBackground(), solvers[0], fnm, 20)
	if st == "unsat" {
		return "false", "the real result violates the clause (decided by z3 on the concrete values)"
	}
	if st == "sat" {
		return "true", "the real result is consistent with the clause on the model's input (model did not replay)"
	}
	return "unknown", "the clause could not be decided on the concrete values"
}

func (y *Exec) concreteBytes(st *State, b []byte, nextReg *int64, capacity int) SliceVal {
	o := y.o
	reg := o.Int(*nextReg)
	*nextReg++
	var arr *Term = o.ConstArray(o.ByteArr(), o.ConstI(tyByte, 0))
	for i, c := range b {
		arr = o.Store(arr, o.Idx(int64(i)), o.ConstI(tyByte, int64(c)))
	}
	st.H = o.Store(st.H, reg, arr)
	if capacity < len(b) {
		capacity = len(b)
	}
	return SliceVal{Reg: reg, Off: o.Idx(0), Len: o.Idx(int64(len(b))), Cap: o.Idx(int64(capacity)), Elem: typByte}
}

func (y *Exec) concreteFromModel(st *State, t types.Type, key string, m map[string]string, nextReg *int64) (Val, error) {
	o := y.o
	if ity, ok := intTyOf(t); ok {
		v, ok := modelInt(m, key)
		if !ok {
			v = big.NewInt(0)
		}
		return o.Const(ity, signedOf(v, ity, o.M.BV)), nil
	}
	if isBoolType(t) {
		return o.Bool(modelBool(m, key)), nil
	}
	if isStringType(t) {
		b, ok := modelSeq(m, key)
		if !ok {
			return nil, fmt.Errorf("string %s too long", key)
		}
		return y.constString(string(b)), nil
	}
	if isByteSlice(t) {
		if modelBool(m, key+".nil") {
			return y.zeroVal(t), nil
		}
		b, ok := modelSeq(m, key)
		if !ok {
			return nil, fmt.Errorf("slice %s too long", key)
		}
		cp := len(b)
		if c, ok := modelInt(m, key+".cap"); ok && c.IsInt64() && c.Int64() >= int64(len(b)) && c.Int64() <= int64(len(b))+64 {
			cp = int(c.Int64())
		}
		return y.concreteBytes(st, b, nextReg, cp), nil
	}
	switch u := t.Underlying().(type) {
	case *types.Struct:
		if isTimeType(t) {
			return nil, fmt.Errorf("time.Time parameters are not re-evaluated")
		}
		sv := StructVal{T: t, F: make([]Val, u.NumFields())}
		for i := 0; i < u.NumFields(); i++ {
			v, err := y.concreteFromModel(st, u.Field(i).Type(), key+"."+u.Field(i).Name(), m, nextReg)
			if err != nil {
				return nil, err
			}
			sv.F[i] = v
		}
		return sv, nil
	case *types.Pointer:
		if modelBool(m, key+".nil") {
			return PtrVal{Nil: o.True()}, nil
		}
		v, err := y.concreteFromModel(st, u.Elem(), "*"+key, m, nextReg)
		if err != nil {
			return nil, err
		}
		obj := y.newObject("arg:"+key, u.Elem())
		obj.Init = v
		st.Cells[obj] = v
		return PtrVal{Nil: o.False(), Obj: obj}, nil
	}
	return nil, fmt.Errorf("parameter type %s not supported in re-evaluation", t)
}

func (y *Exec) concreteFromDump(st *State, t types.Type, d *dumpVal, nextReg *int64) (Val, error) {
	o := y.o
	if isErrorType(t) {
		ev := ErrVal{Nil: o.True(), Is: map[string]*Term{}, As: map[string]*Term{}, Data: map[string]*Term{}}
		if d.Err != nil {
			ev.Nil = o.Bool(d.Err.Nil)
			for k, v := range d.Err.Is {
				ev.Is[k] = o.Bool(v)
			}
			for k, v := range d.Err.As {
				ev.As[k] = o.Bool(v)
			}
			ev.Data["inputLen"] = o.ConstI(tyInt, int64(d.Err.InputLen))
		}
		return ev, nil
	}
	if ity, ok := intTyOf(t); ok {
		n, ok := new(big.Int).SetString(d.I, 10)
		if !ok {
			return nil, fmt.Errorf("bad integer in replay output")
		}
		return o.Const(ity, n), nil
	}
	if isBoolType(t) {
		if d.B == nil {
			return nil, fmt.Errorf("bad bool in replay output")
		}
		return o.Bool(*d.B), nil
	}
	if isStringType(t) {
		if d.S == nil {
			return nil, fmt.Errorf("bad string in replay output")
		}
		b, _ := hex.DecodeString(*d.S)
		return y.constString(string(b)), nil
	}
	if isByteSlice(t) {
		if d.Nil != nil && *d.Nil {
			return y.zeroVal(t), nil
		}
		if d.Bytes == nil {
			return nil, fmt.Errorf("bad bytes in replay output")
		}
		b, _ := hex.DecodeString(*d.Bytes)
		return y.concreteBytes(st, b, nextReg, len(b)), nil
	}
	switch u := t.Underlying().(type) {
	case *types.Struct:
		sv := StructVal{T: t, F: make([]Val, u.NumFields())}
		for i := 0; i < u.NumFields(); i++ {
			fd, ok := d.F[u.Field(i).Name()]
			if !ok {
				return nil, fmt.Errorf("missing field %s in replay output", u.Field(i).Name())
			}
			v, err := y.concreteFromDump(st, u.Field(i).Type(), fd, nextReg)
			if err != nil {
				return nil, err
			}
			sv.F[i] = v
		}
		return sv, nil
	}
	return nil, fmt.Errorf("result type %s not supported in re-evaluation", t)
}

// runReplayTest injects the test file into the package with -overlay and runs it.
func runReplayTest(repo, pkgRel, src string) (string, error) {
	dir, err := os.MkdirTemp("", "govc-replay-")
	if err != nil {
		return "", err
	}
	defer os.RemoveAll(dir)
	pkgDir := filepath.Join(repo, pkgRel)
	tf := filepath.Join(dir, "zz_replay_test.go")
	os.WriteFile(tf, []byte(src), 0o644)
	ov, _ := json.Marshal(map[string]any{"Replace": map[string]string{filepath.Join(pkgDir, "zz_verif_replay_test.go"): tf}})
	ovf := filepath.Join(dir, "overlay.json")
	os.WriteFile(ovf, ov, 0o644)
	cmd := exec.Command("go", "test", "-tags", "verif", "-overlay", ovf, "-vet=off", "-count=1", "-v", "-timeout", "60s", "-run", "^TestVerifReplay$", ".")
	cmd.Dir = pkgDir
	cmd.Env = append(os.Environ(), "GOFLAGS=-mod=mod", "GOPROXY=off", "GOSUMDB=off", "GOTOOLCHAIN=local")
	done := make(chan struct{})
	var outb []byte
	go func() { outb, _ = cmd.CombinedOutput(); close(done) }()
	select {
	case <-done:
	case <-time.After(150 * time.Second):
		if cmd.Process != nil {
			cmd.Process.Kill()
		}
		return "", fmt.Errorf("replay timed out")
	}
	return string(outb), nil
}
