package main

// Regular expressions: every regexp.MustCompile(<constant>) of the module is parsed with regexp/syntax;
// matching is encoded either exactly (quantifier-free NFA simulation, for patterns of bounded length),
// or as an uninterpreted language predicate plus the concatenation skeleton of the pattern.

import (
	"fmt"
	"regexp/syntax"
	"strings"

	"golang.org/x/tools/go/ssa"
)

type skelItem struct {
	Kind  string // "lit", "cap", "sub", "opt"
	Lit   string
	Cap   int
	Re    *syntax.Regexp
	Items []skelItem // opt
}

type RegexInfo struct {
	Name     string
	Pattern  string
	Re       *syntax.Regexp
	Prog     *syntax.Prog
	MinLen   int
	MaxLen   int // -1 = unbounded
	NumCap   int
	Anchored bool
	Skel     []skelItem
	SkelOK   bool
	progs    map[*syntax.Regexp]*syntax.Prog
	// leading-star shape: ^ (C*) rest $ with rest of bounded length and no word of rest starting with a byte of C
	LeadSet  [128]bool
	LeadOK   bool
	Rest     *syntax.Regexp
	RestMax  int
}

const inf = -1

func reLen(re *syntax.Regexp) (min, max int) {
	switch re.Op {
	case syntax.OpEmptyMatch, syntax.OpBeginText, syntax.OpEndText, syntax.OpBeginLine, syntax.OpEndLine, syntax.OpNoMatch:
		return 0, 0
	case syntax.OpLiteral:
		return len(re.Rune), len(re.Rune)
	case syntax.OpCharClass, syntax.OpAnyChar, syntax.OpAnyCharNotNL:
		return 1, 1
	case syntax.OpCapture:
		return reLen(re.Sub[0])
	case syntax.OpStar:
		return 0, inf
	case syntax.OpPlus:
		m, _ := reLen(re.Sub[0])
		return m, inf
	case syntax.OpQuest:
		_, mx := reLen(re.Sub[0])
		return 0, mx
	case syntax.OpRepeat:
		m, mx := reLen(re.Sub[0])
		lo := m * re.Min
		if re.Max < 0 || mx == inf {
			return lo, inf
		}
		return lo, mx * re.Max
	case syntax.OpConcat:
		tm, tx := 0, 0
		for _, s := range re.Sub {
			m, mx := reLen(s)
			tm += m
			if tx != inf {
				if mx == inf {
					tx = inf
				} else {
					tx += mx
				}
			}
		}
		return tm, tx
	case syntax.OpAlternate:
		tm, tx := -1, 0
		for _, s := range re.Sub {
			m, mx := reLen(s)
			if tm < 0 || m < tm {
				tm = m
			}
			if tx != inf {
				if mx == inf {
					tx = inf
				} else if mx > tx {
					tx = mx
				}
			}
		}
		return tm, tx
	}
	return 0, inf
}

func (w *World) regexInfo(pk *Pkg, name string) (*RegexInfo, error) {
	key := pk.Name + "." + name
	w.regexMu.Lock()
	defer w.regexMu.Unlock()
	if w.regexes == nil {
		w.regexes = map[string]*RegexInfo{}
	}
	if ri, ok := w.regexes[key]; ok {
		return ri, nil
	}
	gi := pk.Inits[name]
	if gi == nil || gi.Kind != "regexp" {
		return nil, fmt.Errorf("%s is not a regexp.MustCompile(<constant>) variable", key)
	}
	ri, err := newRegexInfo(key, gi.Pattern)
	if err != nil {
		return nil, err
	}
	w.regexes[key] = ri
	return ri, nil
}

func (w *World) specRegex(key, pattern string) (*RegexInfo, error) {
	w.regexMu.Lock()
	defer w.regexMu.Unlock()
	if w.regexes == nil {
		w.regexes = map[string]*RegexInfo{}
	}
	if ri, ok := w.regexes[key]; ok {
		return ri, nil
	}
	ri, err := newRegexInfo(key, pattern)
	if err != nil {
		return nil, err
	}
	w.regexes[key] = ri
	return ri, nil
}

func newRegexInfo(key, pattern string) (*RegexInfo, error) {
	re, err := syntax.Parse(pattern, syntax.Perl)
	if err != nil {
		return nil, fmt.Errorf("regexp %s: %v", key, err)
	}
	ri := &RegexInfo{Name: key, Pattern: pattern, Re: re, NumCap: re.MaxCap(), progs: map[*syntax.Regexp]*syntax.Prog{}}
	ri.MinLen, ri.MaxLen = reLen(re)
	prog, err := syntax.Compile(re.Simplify())
	if err != nil {
		return nil, err
	}
	ri.Prog = prog
	if err := checkASCII(prog); err != nil {
		return nil, fmt.Errorf("regexp %s: %v", key, err)
	}
	// anchored ^ ... $ ?
	if re.Op == syntax.OpConcat && len(re.Sub) >= 2 && re.Sub[0].Op == syntax.OpBeginText && re.Sub[len(re.Sub)-1].Op == syntax.OpEndText {
		ri.Anchored = true
		ri.Skel, ri.SkelOK = skeleton(re.Sub[1 : len(re.Sub)-1])
		ri.analyseLead(re.Sub[1 : len(re.Sub)-1])
	}
	return ri, nil
}

func (ri *RegexInfo) analyseLead(subs []*syntax.Regexp) {
	if len(subs) < 1 {
		return
	}
	first := subs[0]
	if first.Op == syntax.OpCapture {
		first = first.Sub[0]
	}
	set, min, ok := starClass(first)
	if !ok || min != 0 {
		return
	}
	rest := &syntax.Regexp{Op: syntax.OpConcat, Sub: subs[1:], Flags: ri.Re.Flags}
	if len(subs) == 1 {
		rest = &syntax.Regexp{Op: syntax.OpEmptyMatch}
	}
	_, mx := reLen(rest)
	if mx == inf || mx > regexExactMax {
		return
	}
	// first-byte set of rest must be disjoint from the star's class
	p, err := syntax.Compile(rest.Simplify())
	if err != nil {
		return
	}
	seen := map[int]bool{}
	var fs [128]bool
	var walk func(pc int)
	walk = func(pc int) {
		if seen[pc] {
			return
		}
		seen[pc] = true
		in := &p.Inst[pc]
		switch in.Op {
		case syntax.InstAlt, syntax.InstAltMatch:
			walk(int(in.Out))
			walk(int(in.Arg))
		case syntax.InstNop, syntax.InstCapture, syntax.InstEmptyWidth:
			walk(int(in.Out))
		case syntax.InstRune, syntax.InstRune1:
			bs := byteSet(in)
			for b := 0; b < 128; b++ {
				if bs[b] {
					fs[b] = true
				}
			}
		}
	}
	walk(p.Start)
	for b := 0; b < 128; b++ {
		if fs[b] && set[b] {
			return
		}
	}
	ri.LeadSet, ri.LeadOK, ri.Rest, ri.RestMax = set, true, rest, mx
	ri.progs[rest] = p
}

// leadRun: the number of leading bytes of view that belong to set -- a function of the view, introduced with its
// defining properties (0 <= k <= len, all bytes before k in the set, the byte at k, if any, not in it).
func (x *Exec) leadRun(view StrVal, set [128]bool) *Term {
	o := x.o
	name := "leadrun"
	for b := 0; b < 128; b++ {
		if set[b] {
			name += fmt.Sprintf(".%d", b)
		}
	}
	k := o.UF(name, o.IdxSort(), view.Arr, view.Off, view.Len)
	if x.leadDone == nil {
		x.leadDone = map[*Term]bool{}
	}
	if !x.leadDone[k] {
		x.leadDone[k] = true
		i := o.BoundVar("i", o.IdxSort())
		// (for well-formed views only: see firstDiff)
		wf := o.IdxLe(o.Idx(0), view.Len)
		x.assumeClosed(o.Implies(wf, o.And(o.IdxLe(o.Idx(0), k), o.IdxLe(k, view.Len))))
		x.assumeClosed(o.Implies(wf, o.Forall([]*Term{i}, o.Implies(o.And(o.IdxLe(o.Idx(0), i), o.IdxLt(i, k)), x.classTerm(set, o.Select(view.Arr, o.IdxAdd(view.Off, i)))))))
		x.assumeClosed(o.Implies(o.And(wf, o.IdxLt(k, view.Len)), o.Not(x.classTerm(set, o.SelByte(view.Arr, o.IdxAdd(view.Off, k))))))
	}
	return k
}

func skeleton(subs []*syntax.Regexp) ([]skelItem, bool) {
	var items []skelItem
	for _, s := range subs {
		switch s.Op {
		case syntax.OpLiteral:
			if s.Flags&syntax.FoldCase != 0 {
				items = append(items, skelItem{Kind: "sub", Re: s})
			} else {
				items = append(items, skelItem{Kind: "lit", Lit: string(s.Rune)})
			}
		case syntax.OpCapture:
			if hasCapture(s.Sub[0]) {
				return nil, false
			}
			items = append(items, skelItem{Kind: "cap", Cap: s.Cap, Re: s.Sub[0]})
		case syntax.OpQuest:
			inner := s.Sub[0]
			var innerSubs []*syntax.Regexp
			if inner.Op == syntax.OpConcat {
				innerSubs = inner.Sub
			} else {
				innerSubs = []*syntax.Regexp{inner}
			}
			if !hasCapture(inner) {
				items = append(items, skelItem{Kind: "sub", Re: s})
				continue
			}
			its, ok := skeleton(innerSubs)
			if !ok {
				return nil, false
			}
			items = append(items, skelItem{Kind: "opt", Items: its})
		case syntax.OpConcat:
			its, ok := skeleton(s.Sub)
			if !ok {
				return nil, false
			}
			items = append(items, its...)
		default:
			if hasCapture(s) {
				return nil, false
			}
			items = append(items, skelItem{Kind: "sub", Re: s})
		}
	}
	return items, true
}

func hasCapture(re *syntax.Regexp) bool {
	if re.Op == syntax.OpCapture {
		return true
	}
	for _, s := range re.Sub {
		if hasCapture(s) {
			return true
		}
	}
	return false
}

// checkASCII: every rune instruction matches ASCII only (so byte-wise simulation is exact).
func checkASCII(p *syntax.Prog) error {
	for i := range p.Inst {
		in := &p.Inst[i]
		switch in.Op {
		case syntax.InstRuneAny, syntax.InstRuneAnyNotNL:
			return fmt.Errorf("pattern uses '.', which is outside the modelled subset")
		case syntax.InstRune, syntax.InstRune1:
			for r := rune(0x80); r < 0x3000; r++ {
				if in.MatchRune(r) {
					return fmt.Errorf("pattern matches non-ASCII rune %U, which is outside the modelled subset", r)
				}
			}
			for _, r := range []rune{0x10000, 0x10FFFF, 0xFFFD, 0xFFFF, 0xE000} {
				if in.MatchRune(r) {
					return fmt.Errorf("pattern matches non-ASCII rune %U, which is outside the modelled subset", r)
				}
			}
		case syntax.InstEmptyWidth:
			if syntax.EmptyOp(in.Arg)&(syntax.EmptyWordBoundary|syntax.EmptyNoWordBoundary) != 0 {
				return fmt.Errorf("pattern uses \\b, which is outside the modelled subset")
			}
		}
	}
	return nil
}

func byteSet(in *syntax.Inst) [128]bool {
	var s [128]bool
	for b := 0; b < 128; b++ {
		s[b] = in.MatchRune(rune(b))
	}
	return s
}

// classTerm: byte c belongs to the set.
func (x *Exec) classTerm(set [128]bool, c *Term) *Term {
	o := x.o
	var ds []*Term
	b := 0
	for b < 128 {
		if !set[b] {
			b++
			continue
		}
		e := b
		for e+1 < 128 && set[e+1] {
			e++
		}
		if e == b {
			ds = append(ds, o.Eq(c, o.ConstI(tyByte, int64(b))))
		} else {
			ds = append(ds, o.And(o.Cmp(tokLEQ, tyByte, o.ConstI(tyByte, int64(b)), c), o.Cmp(tokLEQ, tyByte, c, o.ConstI(tyByte, int64(e)))))
		}
		b = e + 1
	}
	return o.Or(ds...)
}

// nfaMatch: the bytes get(0..n-1) are a full match of prog (from its start), n <= maxLen. Exact and quantifier-free.
// atStart/atEnd tell whether position 0 / n coincide with the beginning / end of the whole text (for ^ and $).
func (x *Exec) nfaMatch(prog *syntax.Prog, get func(i int) *Term, n *Term, maxLen int, atStart, atEnd *Term) *Term {
	o := x.o
	type set map[int]*Term
	var add func(s set, pc int, cond *Term, i int, onStack map[int]bool)
	add = func(s set, pc int, cond *Term, i int, onStack map[int]bool) {
		if cond.IsFalse() {
			return
		}
		if onStack[pc] {
			panic(execErr{"regexp: empty-width loop in pattern (outside the modelled subset)"})
		}
		in := &prog.Inst[pc]
		switch in.Op {
		case syntax.InstFail:
		case syntax.InstAlt, syntax.InstAltMatch:
			onStack[pc] = true
			add(s, int(in.Out), cond, i, onStack)
			add(s, int(in.Arg), cond, i, onStack)
			delete(onStack, pc)
		case syntax.InstNop, syntax.InstCapture:
			onStack[pc] = true
			add(s, int(in.Out), cond, i, onStack)
			delete(onStack, pc)
		case syntax.InstEmptyWidth:
			c := cond
			op := syntax.EmptyOp(in.Arg)
			if op&(syntax.EmptyBeginText|syntax.EmptyBeginLine) != 0 {
				if i != 0 {
					return
				}
				c = o.And(c, atStart)
			}
			if op&(syntax.EmptyEndText|syntax.EmptyEndLine) != 0 {
				c = o.And(c, atEnd, o.Eq(n, o.Idx(int64(i))))
			}
			onStack[pc] = true
			add(s, int(in.Out), c, i, onStack)
			delete(onStack, pc)
		default: // rune instructions, match
			if old, ok := s[pc]; ok {
				s[pc] = o.Or(old, cond)
			} else {
				s[pc] = cond
			}
		}
	}
	cur := set{}
	add(cur, prog.Start, o.True(), 0, map[int]bool{})
	acc := o.False()
	for i := 0; i <= maxLen; i++ {
		for pc, cond := range cur {
			if prog.Inst[pc].Op == syntax.InstMatch {
				acc = o.Or(acc, o.And(cond, o.Eq(n, o.Idx(int64(i)))))
			}
		}
		if i == maxLen {
			break
		}
		next := set{}
		var pcs []int
		for pc := range cur {
			pcs = append(pcs, pc)
		}
		sortInts(pcs)
		more := o.IdxLt(o.Idx(int64(i)), n)
		var ch *Term
		for _, pc := range pcs {
			in := &prog.Inst[pc]
			if in.Op == syntax.InstMatch {
				continue
			}
			if ch == nil {
				ch = get(i)
			}
			c2 := o.And(cur[pc], more, x.classTerm(byteSet(in), ch))
			add(next, int(in.Out), c2, i+1, map[int]bool{})
		}
		cur = next
		if len(cur) == 0 {
			break
		}
	}
	return acc
}

func sortInts(a []int) {
	for i := 1; i < len(a); i++ {
		for j := i; j > 0 && a[j] < a[j-1]; j-- {
			a[j], a[j-1] = a[j-1], a[j]
		}
	}
}

func (ri *RegexInfo) progFor(re *syntax.Regexp) *syntax.Prog {
	if p, ok := ri.progs[re]; ok {
		return p
	}
	p, err := syntax.Compile(re.Simplify())
	if err != nil {
		panic(execErr{"regexp: " + err.Error()})
	}
	ri.progs[re] = p
	return p
}

// starClass: re is C* or C+ for a single-character class C (returns the byte set and the minimum count).
func starClass(re *syntax.Regexp) (set [128]bool, min int, ok bool) {
	if re.Op != syntax.OpStar && re.Op != syntax.OpPlus {
		return set, 0, false
	}
	sub := re.Sub[0]
	if sub.Op != syntax.OpCharClass && !(sub.Op == syntax.OpLiteral && len(sub.Rune) == 1) {
		return set, 0, false
	}
	p, err := syntax.Compile(sub.Simplify())
	if err != nil {
		return set, 0, false
	}
	for i := range p.Inst {
		if p.Inst[i].Op == syntax.InstRune || p.Inst[i].Op == syntax.InstRune1 {
			set = byteSet(&p.Inst[i])
			if re.Op == syntax.OpPlus {
				min = 1
			}
			return set, min, true
		}
	}
	return set, 0, false
}

const regexExactMax = 24

// pieceMatch: bytes view[start .. start+n) are a full match of re.
func (x *Exec) pieceMatch(ri *RegexInfo, re *syntax.Regexp, view StrVal, start, n *Term, tag string) *Term {
	o := x.o
	_, mx := reLen(re)
	if mx != inf && mx <= regexExactMax {
		get := func(i int) *Term { return o.SelByte(view.Arr, o.IdxAdd(o.IdxAdd(view.Off, start), o.Idx(int64(i)))) }
		return x.nfaMatch(ri.progFor(re), get, n, mx, o.True(), o.True())
	}
	if set, min, ok := starClass(re); ok {
		i := o.BoundVar("i", o.IdxSort())
		body := o.Implies(o.And(o.IdxLe(o.Idx(0), i), o.IdxLt(i, n)), x.classTerm(set, o.Select(view.Arr, o.IdxAdd(o.IdxAdd(view.Off, start), i))))
		return o.And(o.IdxLe(o.Idx(int64(min)), n), o.Forall([]*Term{i}, body))
	}
	switch re.Op {
	case syntax.OpCapture:
		return x.pieceMatch(ri, re.Sub[0], view, start, n, tag)
	case syntax.OpAlternate:
		var ds []*Term
		for k, sub := range re.Sub {
			ds = append(ds, x.pieceMatch(ri, sub, view, start, n, fmt.Sprintf("%s.a%d", tag, k)))
		}
		return o.Or(ds...)
	case syntax.OpConcat:
		// fixed-length prefix followed by one unbounded tail
		if len(re.Sub) >= 2 {
			last := re.Sub[len(re.Sub)-1]
			pre := &syntax.Regexp{Op: syntax.OpConcat, Sub: re.Sub[:len(re.Sub)-1], Flags: re.Flags}
			if len(re.Sub) == 2 {
				pre = re.Sub[0]
			}
			pmn, pmx := reLen(pre)
			if pmx != inf && pmn == pmx {
				k := o.Idx(int64(pmn))
				return o.And(o.IdxLe(k, n), x.pieceMatch(ri, pre, view, start, k, tag+".h"),
					x.pieceMatch(ri, last, view, o.IdxAdd(start, k), o.IdxSub(n, k), tag+".t"))
			}
		}
	}
	// uninterpreted sub-language
	return o.UF("inlang."+ri.Name+"."+tag, BoolSort, view.Arr, o.IdxAdd(view.Off, start), n)
}

// inLang: view is in the language of the regexp variable pk.name.
func (x *Exec) inLang(pk *Pkg, name string, view StrVal) *Term {
	ri, err := x.w.regexInfo(pk, name)
	if err != nil {
		panic(specErr{err.Error()})
	}
	return x.inLangRI(ri, view)
}

func (x *Exec) inLangRI(ri *RegexInfo, view StrVal) *Term {
	o := x.o
	x.regexUse[ri.Name] = true
	if !ri.Anchored {
		panic(execErr{fmt.Sprintf("regexp %s is not anchored with ^...$ (outside the modelled subset)", ri.Name)})
	}
	if ri.MaxLen != inf && ri.MaxLen <= 64 {
		if ri.SkelOK {
			// few decompositions: the match is the disjunction over them (all positions constant per disjunct)
			if f, ok := x.skeletonEnum(ri, view, "", nil, nil, false); ok {
				return f
			}
		}
		get := func(i int) *Term { return o.SelByte(view.Arr, o.IdxAdd(view.Off, o.Idx(int64(i)))) }
		return o.And(o.IdxLe(view.Len, o.Idx(int64(ri.MaxLen))), x.nfaMatch(ri.Prog, get, view.Len, ri.MaxLen, o.True(), o.True()))
	}
	if ri.LeadOK {
		// exact: the leading run is forced (no word of `rest` starts with a byte of the class), the rest is bounded
		k := x.leadRun(view, ri.LeadSet)
		n := o.IdxSub(view.Len, k)
		get := func(i int) *Term { return o.SelByte(view.Arr, o.IdxAdd(o.IdxAdd(view.Off, k), o.Idx(int64(i)))) }
		return o.And(o.IdxLe(n, o.Idx(int64(ri.RestMax))), x.nfaMatch(ri.progFor(ri.Rest), get, n, ri.RestMax, o.True(), o.True()))
	}
	return o.UF("inlang."+ri.Name, BoolSort, view.Arr, view.Off, view.Len)
}

// skeletonFacts: assuming the text matched, it is the concatenation of the pattern's items; returns the facts and
// the (start,len) of every capture group (index 1..NumCap).
func (x *Exec) skeletonFacts(ri *RegexInfo, view StrVal, tag string) (*Term, []*Term, []*Term) {
	o := x.o
	starts := make([]*Term, ri.NumCap+1)
	lens := make([]*Term, ri.NumCap+1)
	if f, ok := x.skeletonEnum(ri, view, tag, starts, lens, true); ok {
		return f, starts, lens
	}
	var facts []*Term
	cnt := 0
	var walk func(items []skelItem, pos *Term, present *Term) *Term
	walk = func(items []skelItem, pos *Term, present *Term) *Term {
		for _, it := range items {
			cnt++
			switch it.Kind {
			case "lit":
				for k := 0; k < len(it.Lit); k++ {
					facts = append(facts, o.Implies(present, o.Eq(o.SelByte(view.Arr, o.IdxAdd(o.IdxAdd(view.Off, pos), o.Idx(int64(k)))), o.ConstI(tyByte, int64(it.Lit[k])))))
				}
				pos = o.IdxAdd(pos, o.Ite(present, o.Idx(int64(len(it.Lit))), o.Idx(0)))
			case "cap", "sub":
				mn, mx := reLen(it.Re)
				l := o.Fresh(fmt.Sprintf("%s.len%d", tag, cnt), o.IdxSort())
				x.assumeLen(l)
				if !o.M.BV {
					if mx != inf {
						o.SetRange64(l, 0, int64(mx))
					}
				} else if mx != inf {
					facts = append(facts, o.IdxLe(l, o.Idx(int64(mx))))
				}
				facts = append(facts, o.Implies(present, o.IdxLe(o.Idx(int64(mn)), l)))
				facts = append(facts, o.Implies(o.Not(present), o.Eq(l, o.Idx(0))))
				facts = append(facts, o.Implies(present, x.pieceMatch(ri, it.Re, view, pos, l, fmt.Sprintf("p%d", cnt))))
				if it.Kind == "cap" {
					starts[it.Cap] = pos
					lens[it.Cap] = l
				}
				pos = o.IdxAdd(pos, l)
			case "opt":
				p := o.Fresh(fmt.Sprintf("%s.opt%d", tag, cnt), BoolSort)
				pos = walk(it.Items, pos, o.And(present, p))
			}
		}
		return pos
	}
	end := walk(ri.Skel, o.Idx(0), o.True())
	facts = append(facts, o.Eq(end, view.Len))
	if ri.LeadOK && len(ri.Skel) > 0 && ri.Skel[0].Kind == "cap" {
		// the star's capture is exactly the leading run (no word of the rest starts with a byte of its class)
		facts = append(facts, o.Eq(lens[ri.Skel[0].Cap], x.leadRun(view, ri.LeadSet)))
	}
	return o.And(facts...), starts, lens
}

func (x *Exec) regexOf(v Val) *RegexInfo {
	p, ok := v.(PtrVal)
	var name string
	if ok && p.Obj != nil && p.Obj.Init != nil {
		if rv, ok := p.Obj.Init.(RegexpVal); ok {
			name = rv.Name
		}
	}
	if rv, ok := v.(RegexpVal); ok {
		name = rv.Name
	}
	if name == "" {
		x.fail("regexp method on a value that is not a package-level regexp.MustCompile(<constant>)")
	}
	parts := strings.SplitN(name, ".", 2)
	ri, err := x.w.regexInfo(x.w.Pkgs[parts[0]], parts[1])
	if err != nil {
		x.fail("%v", err)
	}
	return ri
}

type smEntry struct {
	view          StrVal
	matched       *Term
	starts, lens  []*Term
}

// submatchOf: the decomposition of view by the regexp (memoised per view; different views of the same regexp
// are tied together by functional-consistency axioms: equal views have equal decompositions).
func (x *Exec) submatchOf(ri *RegexInfo, view StrVal) *smEntry {
	o := x.o
	if x.smMemo == nil {
		x.smMemo = map[string][]*smEntry{}
	}
	for _, e := range x.smMemo[ri.Name] {
		if e.view.Arr == view.Arr && e.view.Off == view.Off && e.view.Len == view.Len {
			return e
		}
	}
	if !ri.SkelOK {
		x.fail("regexp %s: pattern shape has no concatenation skeleton (outside the modelled subset)", ri.Name)
	}
	matched := x.inLangRI(ri, view)
	seq := x.callSeq
	x.callSeq++
	e := &smEntry{view: view, matched: matched}
	x.defining(func() {
		var facts *Term
		facts, e.starts, e.lens = x.skeletonFacts(ri, view, fmt.Sprintf("m%d", seq))
		x.assume(o.Implies(matched, facts))
		for _, p := range x.smMemo[ri.Name] {
			same := o.And(o.Eq(p.view.Arr, view.Arr), o.Eq(p.view.Off, view.Off), o.Eq(p.view.Len, view.Len))
			var eqs []*Term
			for k := 1; k <= ri.NumCap; k++ {
				eqs = append(eqs, o.Eq(p.starts[k], e.starts[k]), o.Eq(p.lens[k], e.lens[k]))
			}
			x.assume(o.Implies(same, o.And(eqs...)))
		}
	})
	x.smMemo[ri.Name] = append(x.smMemo[ri.Name], e)
	return e
}

// (*Regexp).FindSubmatch(b): nil iff no match; otherwise NumSubexp+1 sub-slices of b obeying the skeleton.
func schemaFindSubmatch(x *Exec, st *State, fn *ssa.Function, args []Val, c *ssa.CallCommon) Val {
	o := x.o
	ri := x.regexOf(args[0])
	b, ok := args[1].(SliceVal)
	if !ok {
		x.fail("FindSubmatch on %T", args[1])
	}
	view := x.seqView(st, b)
	e := x.submatchOf(ri, view)
	matched, starts, lens := e.matched, e.starts, e.lens
	sm := SubmatchVal{Matched: matched}
	sm.Parts = append(sm.Parts, b)
	for k := 1; k <= ri.NumCap; k++ {
		if starts[k] == nil {
			x.fail("regexp %s: capture %d not found in skeleton", ri.Name, k)
		}
		sm.Parts = append(sm.Parts, SliceVal{Reg: b.Reg, Off: o.IdxAdd(b.Off, starts[k]), Len: lens[k], Cap: o.IdxSub(b.Cap, starts[k]), Elem: b.Elem})
	}
	return sm
}

// (*Regexp).Match(b) / MatchString(s)
func schemaRegexpMatch(x *Exec, st *State, fn *ssa.Function, args []Val, c *ssa.CallCommon) Val {
	ri := x.regexOf(args[0])
	view := x.seqView(st, args[1])
	return x.inLangRI(ri, view)
}


// skeletonEnum: for patterns whose pieces all have bounded length and few length combinations, the skeleton is
// stated as a disjunction over the concrete decompositions (all positions constant in each disjunct).
func (x *Exec) skeletonEnum(ri *RegexInfo, view StrVal, tag string, starts, lens []*Term, withVars bool) (*Term, bool) {
	o := x.o
	type piece struct {
		it     skelItem
		mn, mx int
		lv     *Term
	}
	var ps []*piece
	for _, it := range ri.Skel {
		switch it.Kind {
		case "lit":
			ps = append(ps, &piece{it: it, mn: len(it.Lit), mx: len(it.Lit)})
		case "cap", "sub":
			mn, mx := reLen(it.Re)
			if mx == inf || mx > regexExactMax {
				return nil, false
			}
			ps = append(ps, &piece{it: it, mn: mn, mx: mx})
		default:
			return nil, false
		}
	}
	combos := 1
	for _, p := range ps {
		combos *= p.mx - p.mn + 1
		if combos > 256 {
			return nil, false
		}
	}
	for i, p := range ps {
		if !withVars {
			break
		}
		p.lv = o.Fresh(fmt.Sprintf("%s.len%d", tag, i+1), o.IdxSort())
		x.assumeLen(p.lv)
		if !o.M.BV {
			o.SetRange64(p.lv, int64(p.mn), int64(p.mx))
		}
	}
	var disj []*Term
	cur := make([]int, len(ps))
	var rec func(i, pos int, acc []*Term)
	rec = func(i, pos int, acc []*Term) {
		if i == len(ps) {
			c := append(append([]*Term{}, acc...), o.Eq(view.Len, o.Idx(int64(pos))))
			disj = append(disj, o.And(c...))
			return
		}
		p := ps[i]
		for l := p.mn; l <= p.mx; l++ {
			cur[i] = l
			var m *Term
			if p.it.Kind == "lit" {
				var cs []*Term
				for k := 0; k < l; k++ {
					cs = append(cs, o.Eq(o.SelByte(view.Arr, o.IdxAdd(view.Off, o.Idx(int64(pos+k)))), o.ConstI(tyByte, int64(p.it.Lit[k]))))
				}
				m = o.And(cs...)
			} else {
				m = x.pieceMatch(ri, p.it.Re, view, o.Idx(int64(pos)), o.Idx(int64(l)), fmt.Sprintf("p%d", i+1))
			}
			if m.IsFalse() {
				continue
			}
			if withVars {
				rec(i+1, pos+l, append(acc, o.Eq(p.lv, o.Idx(int64(l))), m))
			} else {
				rec(i+1, pos+l, append(acc, m))
			}
		}
	}
	rec(0, 0, nil)
	if !withVars {
		return o.Or(disj...), true
	}
	// capture starts: sums of the preceding piece lengths
	pos := o.Idx(0)
	for _, p := range ps {
		if p.it.Kind == "cap" {
			starts[p.it.Cap] = pos
			lens[p.it.Cap] = p.lv
		}
		pos = o.IdxAdd(pos, p.lv)
	}
	return o.Or(disj...), true
}
