package main

// Parser for the `//@` contract comments kept in /repo/<pkg>/zz_contracts_verif.go.

import (
	"fmt"
	"os"
	"regexp"
	"strconv"
	"strings"
)

type Clause struct {
	Tags  []string
	Text  string
	E     Expr
	Line  int
	Bound bool
	Mask  string // varies clauses: the bits concerned (a constant)
	Candidate bool // loop invariants: a candidate - used if it turns out to be inductive, dropped otherwise
}

type LoopSpec struct {
	Unroll    int
	HasUnroll bool
	Invs      []*Clause
	Exits     []*Clause // `exit` clauses: hold whenever the loop is left from inside its body (return, break)
	Steps     []*Clause // `step` clauses: hold at every back edge, relating the iteration's start to its end
	Decreases *Clause
	Havoc     []string // names of extra state to havoc (informational)
	Dropped   map[int]bool // candidate invariants (indices into Invs) found not to be inductive
}

type PParam struct{ Name, Type string }

type PureFunc struct {
	Rec    bool // rec func: a recursive definition (define-fun-rec), not a macro
	Name   string
	Params []PParam
	Result string
	Text   string
	Body   Expr
	Line   int
}

type FuncContract struct {
	Varies    []*Clause // varies clauses: bits that must take both values
	Name      string
	Mode      string
	Requires  []*Clause
	Ensures   []*Clause
	Assigns   []string
	HasAssign bool
	Loops     map[int]*LoopSpec
	Inline    bool
	Trusted   bool
	Lemma     bool
	Pure      bool // the result is a function of the arguments' contents only (checked syntactically)
	PanicsIff *Clause
	Ghost     []*Clause // `ghost name = expr` bindings evaluated at exit
	Splits    []*Clause // case-split hints: each obligation is also given these disjuncts
	Line      int
	File      string
	Opts      map[string]string
}

type LangOblig struct {
	Tags []string
	Text string
	Line int
}

type PkgContracts struct {
	File      string
	Configs   map[string]string
	ConstVars map[string]bool
	Pures     map[string]*PureFunc
	PureOrder []string
	Funcs     map[string]*FuncContract
	FuncOrder []string
	Regexes   map[string]string // named spec regexes (Go regexp syntax)
	Langs     []*LangOblig
	Guarded   map[string]string // var -> mutex
	Domains   []*Clause         // assumed domain of configuration variables
}

var clauseKeywords = map[string]bool{
	"mode": true, "requires": true, "ensures": true, "assigns": true, "loop": true, "inline": true,
	"trusted": true, "lemma": true, "panics_iff": true, "ghost": true, "split": true, "opt": true, "bound": true, "pure": true, "varies": true,
}

var tagRe = regexp.MustCompile(`^\[([^\]]*)\]\s*`)

func parseClause(text string, line int) (*Clause, error) {
	c := &Clause{Line: line}
	text = strings.TrimSpace(text)
	if m := tagRe.FindStringSubmatch(text); m != nil && looksLikeTags(m[1]) {
		c.Tags = strings.Fields(m[1])
		text = text[len(m[0]):]
	}
	c.Text = text
	e, err := ParseSpecExpr(text)
	if err != nil {
		return nil, fmt.Errorf("line %d: %v", line, err)
	}
	c.E = e
	return c, nil
}

func looksLikeTags(s string) bool {
	fs := strings.Fields(s)
	if len(fs) == 0 {
		return false
	}
	for _, f := range fs {
		if !regexp.MustCompile(`^[A-Za-z][A-Za-z0-9_.\-]*$`).MatchString(f) {
			return false
		}
	}
	return true
}

type rawItem struct {
	head  string // top-level text (joined continuation)
	line  int
	subs  []rawSub
}
type rawSub struct {
	kw   string
	text string
	line int
}

func ParseContractFile(path string) (*PkgContracts, error) {
	data, err := os.ReadFile(path)
	if err != nil {
		return nil, err
	}
	pc := &PkgContracts{
		File: path, Configs: map[string]string{}, ConstVars: map[string]bool{},
		Pures: map[string]*PureFunc{}, Funcs: map[string]*FuncContract{}, Regexes: map[string]string{},
		Guarded: map[string]string{},
	}
	var items []*rawItem
	var cur *rawItem
	lastWasSub := false
	for i, ln := range strings.Split(string(data), "\n") {
		lineNo := i + 1
		t := strings.TrimLeft(ln, " \t")
		if !strings.HasPrefix(t, "//@") {
			continue
		}
		body := t[3:]
		// strip trailing comment "   // ..." (only when preceded by at least two spaces)
		if k := strings.Index(body, "  //"); k >= 0 {
			body = body[:k]
		}
		if strings.TrimSpace(body) == "" {
			continue
		}
		indent := len(body) - len(strings.TrimLeft(body, " "))
		txt := strings.TrimSpace(body)
		first := txt
		if k := strings.IndexAny(txt, " \t"); k >= 0 {
			first = txt[:k]
		}
		if indent <= 1 {
			cur = &rawItem{head: txt, line: lineNo}
			items = append(items, cur)
			lastWasSub = false
			continue
		}
		if cur == nil {
			return nil, fmt.Errorf("%s:%d: continuation without item", path, lineNo)
		}
		if clauseKeywords[first] && strings.HasPrefix(cur.head, "func ") {
			cur.subs = append(cur.subs, rawSub{kw: first, text: strings.TrimSpace(txt[len(first):]), line: lineNo})
			lastWasSub = true
			continue
		}
		// continuation
		if lastWasSub {
			cur.subs[len(cur.subs)-1].text += " " + txt
		} else {
			cur.head += " " + txt
		}
	}
	for _, it := range items {
		kw := it.head
		rest := ""
		if k := strings.IndexAny(it.head, " \t"); k >= 0 {
			kw, rest = it.head[:k], strings.TrimSpace(it.head[k:])
		}
		switch kw {
		case "config":
			name, def := rest, ""
			if k := strings.Index(rest, "="); k >= 0 {
				name, def = strings.TrimSpace(rest[:k]), strings.TrimSpace(rest[k+1:])
			}
			name = strings.Fields(name)[0]
			pc.Configs[name] = def
		case "constvar":
			for _, n := range strings.Fields(rest) {
				pc.ConstVars[n] = true
			}
		case "guarded":
			fs := strings.Fields(rest)
			if len(fs) == 3 && fs[1] == "by" {
				pc.Guarded[fs[0]] = fs[2]
			} else {
				return nil, fmt.Errorf("%s:%d: guarded X by M", path, it.line)
			}
		case "regex":
			k := strings.Index(rest, "=")
			if k < 0 {
				return nil, fmt.Errorf("%s:%d: regex NAME = `pattern`", path, it.line)
			}
			name := strings.TrimSpace(rest[:k])
			pat := strings.TrimSpace(rest[k+1:])
			// concatenation of string literals with +
			var sb strings.Builder
			for _, part := range splitTopLevel(pat, '+') {
				part = strings.TrimSpace(part)
				if s, err := strconv.Unquote(part); err == nil {
					sb.WriteString(s)
				} else if v, ok := pc.Regexes[part]; ok {
					sb.WriteString(v)
				} else {
					return nil, fmt.Errorf("%s:%d: bad regex piece %q", path, it.line, part)
				}
			}
			pc.Regexes[name] = sb.String()
		case "lang":
			l := &LangOblig{Line: it.line}
			if m := tagRe.FindStringSubmatch(rest); m != nil {
				l.Tags = strings.Fields(m[1])
				rest = rest[len(m[0]):]
			}
			l.Text = rest
			pc.Langs = append(pc.Langs, l)
		case "domain":
			c, err := parseClause(rest, it.line)
			if err != nil {
				return nil, fmt.Errorf("%s:%v", path, err)
			}
			pc.Domains = append(pc.Domains, c)
		case "pure", "rec":
			pf, err := parsePure(rest, it.line)
			if err != nil {
				return nil, fmt.Errorf("%s:%v", path, err)
			}
			pf.Rec = kw == "rec"
			pc.Pures[pf.Name] = pf
			pc.PureOrder = append(pc.PureOrder, pf.Name)
		case "func":
			fc := &FuncContract{Name: strings.TrimSpace(rest), Mode: "int", Loops: map[int]*LoopSpec{}, Line: it.line, File: path, Opts: map[string]string{}}
			for _, s := range it.subs {
				switch s.kw {
				case "mode":
					fc.Mode = s.text
				case "inline":
					fc.Inline = true
				case "trusted":
					fc.Trusted = true
				case "lemma":
					fc.Lemma = true
				case "pure":
					fc.Pure = true
				case "opt":
					fs := strings.Fields(s.text)
					if len(fs) >= 2 {
						fc.Opts[fs[0]] = strings.TrimSpace(strings.TrimPrefix(strings.TrimSpace(s.text), fs[0]))
					} else if len(fs) == 1 {
						fc.Opts[fs[0]] = "1"
					}
				case "requires", "ensures", "panics_iff", "split", "bound":
					group := ""
					if s.kw == "split" {
						if m := regexp.MustCompile(`^([A-Za-z0-9_]+):\s+`).FindStringSubmatch(s.text); m != nil {
							group = m[1]
							s.text = s.text[len(m[0]):]
						}
					}
					c, err := parseClause(s.text, s.line)
					if err != nil {
						return nil, fmt.Errorf("%s:%v", path, err)
					}
					switch s.kw {
					case "requires":
						fc.Requires = append(fc.Requires, c)
					case "ensures":
						fc.Ensures = append(fc.Ensures, c)
					case "bound":
						// a range bound on a result (e.g. len(result) <= 5): proved like an ensures clause, and used at
						// call sites as a typing fact of the fresh result
						c.Bound = true
						fc.Ensures = append(fc.Ensures, c)
					case "panics_iff":
						fc.PanicsIff = c
					case "split":
						c.Tags = []string{group}
						fc.Splits = append(fc.Splits, c)
					}
				case "varies":
					// varies [tags] EXPR mask CONST: every bit of EXPR selected by the mask takes both values at some return
					txt := s.text
					mask := ""
					if k := strings.LastIndex(txt, " mask "); k >= 0 {
						mask = strings.TrimSpace(txt[k+6:])
						txt = txt[:k]
					}
					c, err := parseClause(txt, s.line)
					if err != nil {
						return nil, fmt.Errorf("%s:%v", path, err)
					}
					c.Mask = mask
					fc.Varies = append(fc.Varies, c)
				case "ghost":
					// ghost name = expr
					k := strings.Index(s.text, "=")
					if k < 0 {
						return nil, fmt.Errorf("%s:%d: ghost name = expr", path, s.line)
					}
					c, err := parseClause(s.text[k+1:], s.line)
					if err != nil {
						return nil, fmt.Errorf("%s:%v", path, err)
					}
					c.Tags = []string{strings.TrimSpace(s.text[:k])}
					fc.Ghost = append(fc.Ghost, c)
				case "assigns":
					fc.HasAssign = true
					for _, a := range splitTopLevel(s.text, ',') {
						a = strings.TrimSpace(a)
						if a != "" && a != "nothing" {
							fc.Assigns = append(fc.Assigns, a)
						}
					}
				case "loop":
					fs := strings.Fields(s.text)
					if len(fs) < 2 {
						return nil, fmt.Errorf("%s:%d: loop K unroll N | invariant E | candidate E | step E | exit E | decreases E", path, s.line)
					}
					k, err := strconv.Atoi(fs[0])
					if err != nil {
						return nil, fmt.Errorf("%s:%d: loop ordinal: %v", path, s.line, err)
					}
					ls := fc.Loops[k]
					if ls == nil {
						ls = &LoopSpec{}
						fc.Loops[k] = ls
					}
					restTxt := strings.TrimSpace(strings.TrimPrefix(strings.TrimSpace(s.text), fs[0]))
					restTxt = strings.TrimSpace(strings.TrimPrefix(restTxt, fs[1]))
					switch fs[1] {
					case "unroll":
						n, err := strconv.Atoi(restTxt)
						if err != nil {
							return nil, fmt.Errorf("%s:%d: unroll count: %v", path, s.line, err)
						}
						ls.Unroll, ls.HasUnroll = n, true
					case "invariant":
						c, err := parseClause(restTxt, s.line)
						if err != nil {
							return nil, fmt.Errorf("%s:%v", path, err)
						}
						ls.Invs = append(ls.Invs, c)
					case "candidate":
						c, err := parseClause(restTxt, s.line)
						if err != nil {
							return nil, fmt.Errorf("%s:%v", path, err)
						}
						c.Candidate = true
						ls.Invs = append(ls.Invs, c)
					case "step":
						c, err := parseClause(restTxt, s.line)
						if err != nil {
							return nil, fmt.Errorf("%s:%v", path, err)
						}
						ls.Steps = append(ls.Steps, c)
					case "exit":
						c, err := parseClause(restTxt, s.line)
						if err != nil {
							return nil, fmt.Errorf("%s:%v", path, err)
						}
						ls.Exits = append(ls.Exits, c)
					case "decreases":
						c, err := parseClause(restTxt, s.line)
						if err != nil {
							return nil, fmt.Errorf("%s:%v", path, err)
						}
						ls.Decreases = c
					default:
						return nil, fmt.Errorf("%s:%d: unknown loop clause %q", path, s.line, fs[1])
					}
				}
			}
			if _, dup := pc.Funcs[fc.Name]; dup {
				return nil, fmt.Errorf("%s:%d: duplicate contract for %s", path, it.line, fc.Name)
			}
			pc.Funcs[fc.Name] = fc
			pc.FuncOrder = append(pc.FuncOrder, fc.Name)
		default:
			return nil, fmt.Errorf("%s:%d: unknown contract item %q", path, it.line, kw)
		}
	}
	return pc, nil
}

func splitTopLevel(s string, sep byte) []string {
	var out []string
	depth := 0
	inStr := byte(0)
	start := 0
	for i := 0; i < len(s); i++ {
		ch := s[i]
		if inStr != 0 {
			if ch == '\\' && inStr != '`' {
				i++
			} else if ch == inStr {
				inStr = 0
			}
			continue
		}
		switch ch {
		case '"', '`', '\'':
			inStr = ch
		case '(', '[', '{':
			depth++
		case ')', ']', '}':
			depth--
		default:
			if ch == sep && depth == 0 {
				out = append(out, s[start:i])
				start = i + 1
			}
		}
	}
	out = append(out, s[start:])
	return out
}

var pureRe = regexp.MustCompile(`^func\s+([A-Za-z_][A-Za-z0-9_]*)\s*\(([^)]*)\)\s*([A-Za-z_\[\]\*][A-Za-z0-9_\[\]\.\*]*)\s*=\s*(.*)$`)

func parsePure(rest string, line int) (*PureFunc, error) {
	m := pureRe.FindStringSubmatch(rest)
	if m == nil {
		return nil, fmt.Errorf("%d: pure func NAME(params) TYPE = expr; got %q", line, rest)
	}
	pf := &PureFunc{Name: m[1], Result: m[3], Text: m[4], Line: line}
	// params: "a, b int, c byte"
	var pending []string
	for _, p := range strings.Split(m[2], ",") {
		p = strings.TrimSpace(p)
		if p == "" {
			continue
		}
		fs := strings.Fields(p)
		if len(fs) == 1 {
			pending = append(pending, fs[0])
			continue
		}
		ty := strings.Join(fs[1:], " ")
		for _, n := range pending {
			pf.Params = append(pf.Params, PParam{n, ty})
		}
		pending = nil
		pf.Params = append(pf.Params, PParam{fs[0], ty})
	}
	if len(pending) > 0 {
		return nil, fmt.Errorf("%d: pure func %s: parameters without type", line, pf.Name)
	}
	e, err := ParseSpecExpr(pf.Text)
	if err != nil {
		return nil, fmt.Errorf("%d: pure func %s: %v", line, pf.Name, err)
	}
	pf.Body = e
	return pf, nil
}
