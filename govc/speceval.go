package main

// Evaluation of specification expressions to symbolic values, in the encoding mode of the function
// being verified. The same evaluator serves a function's own requires/ensures/invariants and the
// contracts of its callees at call sites.

import (
	"golang.org/x/tools/go/ssa"
	"fmt"
	"go/constant"
	"go/token"
	"go/types"
	"math/big"
	"strings"
)

type SVal struct {
	V Val
	T types.Type // nil for untyped constants and spec-only values
	C *big.Int   // untyped integer constant
}

type specErr struct{ msg string }

func (e specErr) Error() string { return e.msg }

func sfail(f string, a ...any) { panic(specErr{fmt.Sprintf(f, a...)}) }

type SpecEnv struct {
	x       *Exec
	pk      *Pkg
	vars    map[string]SVal
	pre     *State
	post    *State
	inOld   bool
	tparams map[string]types.Type
	depth   int
	allocPre *Term // allocation counter at entry (for fresh())
	calleePanicked *Term // at a call site: whether the callee went through a recovered panic (unknown to the caller)
	iterReports    *Term // in a loop's step clause: the report counter at the start of the iteration
}

func (e *SpecEnv) clone() *SpecEnv {
	n := *e
	n.vars = map[string]SVal{}
	for k, v := range e.vars {
		n.vars[k] = v
	}
	return &n
}

func (e *SpecEnv) st() *State {
	if e.inOld || e.post == nil {
		return e.pre
	}
	return e.post
}

var typInt = types.Typ[types.Int]
var typBool = types.Typ[types.Bool]
var typByte = types.Typ[types.Uint8]
var typString = types.Typ[types.String]

func (e *SpecEnv) o() *Ops { return e.x.o }

// lookupType resolves a type name written in a contract.
func (e *SpecEnv) lookupType(name string) types.Type {
	name = strings.TrimSpace(name)
	if t, ok := e.tparams[name]; ok {
		return t
	}
	switch name {
	case "bytes":
		return types.NewSlice(typByte)
	case "[]byte":
		return types.NewSlice(typByte)
	case "mathint":
		return typInt
	}
	if strings.HasPrefix(name, "*") {
		if t := e.lookupType(name[1:]); t != nil {
			return types.NewPointer(t)
		}
		return nil
	}
	if strings.HasPrefix(name, "[]") {
		if t := e.lookupType(name[2:]); t != nil {
			return types.NewSlice(t)
		}
		return nil
	}
	if obj := types.Universe.Lookup(name); obj != nil {
		if tn, ok := obj.(*types.TypeName); ok {
			return tn.Type()
		}
	}
	if i := strings.Index(name, "."); i >= 0 {
		// qualified: pkg.Type
		for _, imp := range e.pk.P.Types.Imports() {
			if imp.Name() == name[:i] {
				if obj := imp.Scope().Lookup(name[i+1:]); obj != nil {
					if tn, ok := obj.(*types.TypeName); ok {
						return tn.Type()
					}
				}
			}
		}
		if p2, ok := e.x.w.Pkgs[name[:i]]; ok {
			if obj := p2.P.Types.Scope().Lookup(name[i+1:]); obj != nil {
				if tn, ok := obj.(*types.TypeName); ok {
					return tn.Type()
				}
			}
		}
		return nil
	}
	if obj := e.pk.P.Types.Scope().Lookup(name); obj != nil {
		if tn, ok := obj.(*types.TypeName); ok {
			return tn.Type()
		}
	}
	return nil
}

func (e *SpecEnv) evalBool(ex Expr) *Term {
	v := e.eval(ex)
	t, ok := v.V.(*Term)
	if !ok || t.Sort != BoolSort {
		sfail("expected a boolean: %s", ex)
	}
	return t
}

// coerce an SVal to a term of integer type ty (handles untyped constants)
func (e *SpecEnv) asInt(v SVal, ty IntTy) *Term {
	if v.C != nil {
		if !e.o().M.BV {
			if ty == tyInt {
				// specification arithmetic on int is mathematical in int mode: the constant is itself
				return e.o().IntBig(v.C)
			}
			if v.C.Cmp(ty.Min()) < 0 || v.C.Cmp(ty.Max()) > 0 {
				sfail("constant %s does not fit the type it is compared or combined with", v.C)
			}
		}
		return e.o().Const(ty, v.C)
	}
	t, ok := v.V.(*Term)
	if !ok {
		sfail("expected an integer value, got %T", v.V)
	}
	return t
}

func (e *SpecEnv) intTy(v SVal) (IntTy, bool) {
	if v.C != nil {
		return IntTy{}, false
	}
	if v.T == nil {
		return IntTy{}, false
	}
	return intTyOf(v.T)
}

func (e *SpecEnv) eval(ex Expr) SVal {
	o := e.o()
	switch n := ex.(type) {
	case *EInt:
		return SVal{C: n.V}
	case *EStr:
		return SVal{V: e.x.constString(n.S), T: typString}
	case *EIdent:
		return e.evalIdent(n.Name)
	case *EZero:
		t := e.lookupType(n.Type)
		if t == nil {
			sfail("unknown type %s", n.Type)
		}
		return SVal{V: e.x.zeroVal(t), T: t}
	case *EComposite:
		t := e.lookupType(n.Type)
		if t == nil {
			sfail("unknown type %s", n.Type)
		}
		st, ok := t.Underlying().(*types.Struct)
		if !ok {
			sfail("%s is not a struct type", n.Type)
		}
		sv := e.x.zeroVal(t).(StructVal)
		sv = StructVal{T: sv.T, F: append([]Val{}, sv.F...)}
		for i, fname := range n.Fields {
			found := false
			for k := 0; k < st.NumFields(); k++ {
				if st.Field(k).Name() == fname {
					v := e.eval(n.Vals[i])
					ft := st.Field(k).Type()
					if v.C != nil {
						ity, ok := intTyOf(ft)
						if !ok {
							sfail("constant for non-integer field %s", fname)
						}
						sv.F[k] = o.Const(ity, v.C)
					} else if isStringType(ft) {
						sv.F[k] = e.x.seqView(e.st(), v.V)
					} else {
						sv.F[k] = v.V
					}
					found = true
				}
			}
			if !found {
				sfail("no field %s in %s", fname, n.Type)
			}
		}
		return SVal{V: sv, T: t}
	case *EUnary:
		switch n.Op {
		case "!":
			saved := e.x.catGoal
			e.x.catGoal = false
			r := o.Not(e.evalBool(n.X))
			e.x.catGoal = saved
			return SVal{V: r, T: typBool}
		case "-":
			v := e.eval(n.X)
			if v.C != nil {
				return SVal{C: new(big.Int).Neg(v.C)}
			}
			ty, ok := e.intTy(v)
			if !ok {
				sfail("unary - on non-integer")
			}
			if !o.M.BV && ty == tyInt {
				return SVal{V: o.Neg(v.V.(*Term)), T: v.T}
			}
			return SVal{V: o.NegInt(ty, v.V.(*Term)), T: v.T}
		case "^":
			v := e.eval(n.X)
			ty, ok := e.intTy(v)
			if !ok {
				sfail("unary ^ needs a typed integer")
			}
			return SVal{V: o.NotInt(ty, v.V.(*Term)), T: v.T}
		case "*":
			v := e.eval(n.X)
			p, ok := v.V.(PtrVal)
			if !ok {
				sfail("dereference of non-pointer %s", n.X)
			}
			pt, _ := v.T.Underlying().(*types.Pointer)
			var et types.Type
			if pt != nil {
				et = pt.Elem()
			}
			if p.Obj == nil && p.Slice == nil && len(p.Alts) == 0 && et != nil {
				// the nil pointer: the specification reads an arbitrary value (such reads sit under `p != nil ==>`)
				e.x.specNilDeref++
				return SVal{V: e.x.freshVal(fmt.Sprintf("nilderef%d", e.x.specNilDeref), et), T: et}
			}
			return SVal{V: e.x.readPtr(e.st(), p), T: et}
		}
	case *EBinary:
		return e.evalBinary(n)
	case *ECall:
		return e.evalCall(n)
	case *ESel:
		v := e.eval(n.X)
		return e.selField(v, n.Name)
	case *EIndex:
		xv := e.eval(n.X)
		iv := e.eval(n.I)
		return e.index(xv, iv)
	case *ESlice:
		xv := e.eval(n.X)
		sv := e.x.seqView(e.st(), xv.V)
		lo := o.Idx(0)
		hi := sv.Len
		if n.Lo != nil {
			lo = e.asInt(e.eval(n.Lo), tyInt)
		}
		if n.Hi != nil {
			hi = e.asInt(e.eval(n.Hi), tyInt)
		}
		return SVal{V: StrVal{Arr: sv.Arr, Off: o.IdxAdd(sv.Off, lo), Len: o.IdxSub(hi, lo)}, T: typString}
	case *EQuant:
		return e.evalQuant(n)
	case *EType:
		sfail("type used as value: %s", n.Text)
	}
	sfail("cannot evaluate %s", ex)
	return SVal{}
}

func (e *SpecEnv) evalIdent(name string) SVal {
	o := e.o()
	if v, ok := e.vars[name]; ok {
		return v
	}
	switch name {
	case "true":
		return SVal{V: o.True(), T: typBool}
	case "false":
		return SVal{V: o.False(), T: typBool}
	case "nil":
		return SVal{V: nilMarker{}}
	}
	// package-level constant / variable
	if obj := e.pk.P.Types.Scope().Lookup(name); obj != nil {
		switch ob := obj.(type) {
		case *types.Const:
			return e.constSVal(ob.Val(), ob.Type())
		case *types.Var:
			v, err := e.x.globalValue(e.pk, name, ob.Type())
			if err != nil {
				sfail("%v", err)
			}
			return SVal{V: v, T: ob.Type()}
		case *types.Func:
			fn := e.pk.LookupFunc(name)
			if fn == nil {
				sfail("function %s not found", name)
			}
			return SVal{V: FuncVal{Fn: fn}, T: ob.Type()}
		}
	}
	sfail("unknown identifier %q", name)
	return SVal{}
}

type nilMarker struct{}

func (e *SpecEnv) constSVal(cv constant.Value, t types.Type) SVal {
	o := e.o()
	switch cv.Kind() {
	case constant.Bool:
		return SVal{V: o.Bool(constant.BoolVal(cv)), T: t}
	case constant.String:
		return SVal{V: e.x.constString(constant.StringVal(cv)), T: t}
	case constant.Int:
		bi, _ := new(big.Int).SetString(cv.ExactString(), 10)
		if b, ok := t.Underlying().(*types.Basic); ok && b.Info()&types.IsUntyped != 0 {
			return SVal{C: bi}
		}
		ity, ok := intTyOf(t)
		if !ok {
			sfail("integer constant of non-integer type %s", t)
		}
		return SVal{V: o.Const(ity, bi), T: t}
	}
	sfail("unsupported constant kind %v", cv.Kind())
	return SVal{}
}

func (e *SpecEnv) selField(v SVal, name string) SVal {
	val := v.V
	t := v.T
	if tv, ok := val.(TupleVal); ok {
		tup, _ := t.(*types.Tuple)
		for i := range tv {
			if name == fmt.Sprintf("r%d", i) || (tup != nil && tup.At(i).Name() == name) {
				var et types.Type
				if tup != nil {
					et = tup.At(i).Type()
				}
				return SVal{V: tv[i], T: et}
			}
		}
		sfail("no result %s in tuple", name)
	}
	if p, ok := val.(PtrVal); ok {
		val = e.x.readPtr(e.st(), p)
		if pt, ok := t.Underlying().(*types.Pointer); ok {
			t = pt.Elem()
		}
	}
	sv, ok := val.(StructVal)
	if !ok {
		sfail("field %s of non-struct (%T)", name, val)
	}
	st, ok := sv.T.Underlying().(*types.Struct)
	if !ok {
		sfail("field %s: not a struct type", name)
	}
	for i := 0; i < st.NumFields(); i++ {
		if st.Field(i).Name() == name {
			return SVal{V: sv.F[i], T: st.Field(i).Type()}
		}
	}
	sfail("no field %s in %s", name, sv.T)
	return SVal{}
}

func (e *SpecEnv) index(xv, iv SVal) SVal {
	o := e.o()
	switch c := xv.V.(type) {
	case StrVal, SliceVal:
		sv := e.x.seqView(e.st(), c)
		i := e.asInt(iv, tyInt)
		return SVal{V: o.SelByte(sv.Arr, o.IdxAdd(sv.Off, i)), T: typByte}
	case ArrayVal:
		i := e.asInt(iv, tyInt)
		return SVal{V: o.Select(c.Arr, i), T: c.Elem}
	case SubmatchVal:
		if iv.C == nil {
			sfail("submatch index must be constant")
		}
		k := int(iv.C.Int64())
		if k < 0 || k >= len(c.Parts) {
			sfail("submatch index out of range")
		}
		return SVal{V: c.Parts[k], T: types.NewSlice(typByte)}
	case SymListVal:
		i := e.asInt(iv, tyInt)
		return SVal{V: e.x.cell(e.st(), e.x.symListElem(c, i)), T: c.Elem}
	case ListSliceVal:
		elems := e.x.listElems(e.st(), c)
		if iv.C != nil {
			k := int(iv.C.Int64())
			if k < 0 || k >= len(elems) {
				sfail("table index %d out of range", k)
			}
			return SVal{V: elems[k], T: c.Elem}
		}
		i := e.asInt(iv, tyInt)
		if len(elems) == 0 {
			sfail("index into empty table")
		}
		r := elems[len(elems)-1]
		for k := len(elems) - 2; k >= 0; k-- {
			r = e.x.iteVal(o.Eq(i, o.Idx(int64(k))), elems[k], r)
		}
		return SVal{V: r, T: c.Elem}
	}
	sfail("cannot index %T", xv.V)
	return SVal{}
}

func (e *SpecEnv) evalQuant(n *EQuant) SVal {
	o := e.o()
	lo := e.eval(n.Lo)
	hi := e.eval(n.Hi)
	loT, hiT := e.asInt(lo, tyInt), e.asInt(hi, tyInt)
	lc, lok := loT.ConstInt64()
	hc, hok := hiT.ConstInt64()
	if o.M.BV && lok {
		lc = bvSigned(loT.IVal, 64).Int64()
	}
	if o.M.BV && hok {
		hc = bvSigned(hiT.IVal, 64).Int64()
	}
	if lok && hok && hc-lc <= 4096 {
		var acc []*Term
		sum := SVal{C: big.NewInt(0)}
		var catParts []StrVal
		for i := lc; i < hc; i++ {
			sub := e.clone()
			sub.vars[n.Var] = SVal{C: big.NewInt(i)}
			switch n.Kind {
			case "cat":
				v := sub.eval(n.Body)
				if c, ok := v.V.(SeqCat); ok {
					catParts = append(catParts, c.Parts...)
				} else {
					catParts = append(catParts, e.x.seqView(e.st(), v.V))
				}
			case "forall", "exists":
				acc = append(acc, sub.evalBool(n.Body))
			case "sum":
				sum = sub.binop("+", sum, sub.eval(n.Body))
			case "bitor":
				sum = sub.binop("|", sum, sub.eval(n.Body))
			}
		}
		switch n.Kind {
		case "forall":
			return SVal{V: o.And(acc...), T: typBool}
		case "exists":
			return SVal{V: o.Or(acc...), T: typBool}
		case "cat":
			return SVal{V: SeqCat{Parts: catParts}, T: typString}
		default:
			return sum
		}
	}
	if n.Kind == "sum" || n.Kind == "bitor" || n.Kind == "cat" {
		sfail("%s needs constant bounds", n.Kind)
	}
	bv := o.BoundVar(n.Var, o.IdxSort())
	sub := e.clone()
	sub.vars[n.Var] = SVal{V: bv, T: typInt}
	e.x.quantDepth++
	body := sub.evalBool(n.Body)
	e.x.quantDepth--
	rng := o.And(o.IdxLe(loT, bv), o.IdxLt(bv, hiT))
	if n.Kind == "forall" {
		return SVal{V: o.Forall([]*Term{bv}, o.Implies(rng, body)), T: typBool}
	}
	return SVal{V: o.Exists([]*Term{bv}, o.And(rng, body)), T: typBool}
}

func (e *SpecEnv) evalBinary(n *EBinary) SVal {
	o := e.o()
	switch n.Op {
	case "==>":
		saved := e.x.catGoal
		e.x.catGoal = false
		l := e.evalBool(n.L)
		e.x.catGoal = saved
		return SVal{V: o.Implies(l, e.evalBool(n.R)), T: typBool}
	case "<==>":
		saved := e.x.catGoal
		e.x.catGoal = false
		l, r := e.evalBool(n.L), e.evalBool(n.R)
		e.x.catGoal = saved
		return SVal{V: o.Iff(l, r), T: typBool}
	case "&&":
		return SVal{V: o.And(e.evalBool(n.L), e.evalBool(n.R)), T: typBool}
	case "||":
		return SVal{V: o.Or(e.evalBool(n.L), e.evalBool(n.R)), T: typBool}
	case "++":
		l, r := e.eval(n.L), e.eval(n.R)
		return SVal{V: e.catParts(l, r), T: typString}
	}
	l, r := e.eval(n.L), e.eval(n.R)
	return e.binop(n.Op, l, r)
}

// SeqCat is the spec-level concatenation of sequences (only usable on one side of ==).
type SeqCat struct{ Parts []StrVal }

func (e *SpecEnv) catParts(l, r SVal) Val {
	var ps []StrVal
	add := func(v SVal) {
		if c, ok := v.V.(SeqCat); ok {
			ps = append(ps, c.Parts...)
			return
		}
		ps = append(ps, e.x.seqView(e.st(), v.V))
	}
	add(l)
	add(r)
	return SeqCat{Parts: ps}
}

func (e *SpecEnv) binop(op string, l, r SVal) SVal {
	o := e.o()
	// equality on non-scalars
	if op == "==" || op == "!=" {
		eq := e.equal(l, r)
		if op == "!=" {
			eq = o.Not(eq)
		}
		return SVal{V: eq, T: typBool}
	}
	// both untyped constants
	if l.C != nil && r.C != nil {
		a, b := l.C, r.C
		res := new(big.Int)
		switch op {
		case "+":
			res.Add(a, b)
		case "-":
			res.Sub(a, b)
		case "*":
			res.Mul(a, b)
		case "/":
			if b.Sign() == 0 {
				sfail("division by zero constant")
			}
			res.Quo(a, b)
		case "%":
			if b.Sign() == 0 {
				sfail("division by zero constant")
			}
			res.Rem(a, b)
		case "<<":
			res.Lsh(a, uint(b.Int64()))
		case ">>":
			res.Rsh(a, uint(b.Int64()))
		case "&":
			res.And(a, b)
		case "|":
			res.Or(a, b)
		case "^":
			res.Xor(a, b)
		case "&^":
			res.AndNot(a, b)
		case "<":
			return SVal{V: o.Bool(a.Cmp(b) < 0), T: typBool}
		case "<=":
			return SVal{V: o.Bool(a.Cmp(b) <= 0), T: typBool}
		case ">":
			return SVal{V: o.Bool(a.Cmp(b) > 0), T: typBool}
		case ">=":
			return SVal{V: o.Bool(a.Cmp(b) >= 0), T: typBool}
		default:
			sfail("operator %s on constants", op)
		}
		return SVal{C: res}
	}
	// determine the operand type
	var T types.Type
	isShift := op == "<<" || op == ">>"
	if l.C == nil {
		T = l.T
	} else if !isShift {
		T = r.T
	} else {
		T = typInt
	}
	if T == nil {
		sfail("operator %s: untyped operands", op)
	}
	ty, ok := intTyOf(T)
	if !ok {
		if _, _, isF := floatTyOf(T); isF {
			return e.floatBinop(op, l, r, T)
		}
		sfail("operator %s on non-integer type %s", op, T)
	}
	a := e.asInt(l, ty)
	var b *Term
	bt := ty
	if isShift {
		if r.C != nil {
			b = o.Const(ty, r.C)
		} else {
			bt, _ = intTyOf(r.T)
			b = r.V.(*Term)
		}
	} else {
		b = e.asInt(r, ty)
	}
	var tk token.Token
	switch op {
	case "<":
		return SVal{V: o.Cmp(token.LSS, ty, a, b), T: typBool}
	case "<=":
		return SVal{V: o.Cmp(token.LEQ, ty, a, b), T: typBool}
	case ">":
		return SVal{V: o.Cmp(token.GTR, ty, a, b), T: typBool}
	case ">=":
		return SVal{V: o.Cmp(token.GEQ, ty, a, b), T: typBool}
	case "+":
		tk = token.ADD
	case "-":
		tk = token.SUB
	case "*":
		tk = token.MUL
	case "/":
		tk = token.QUO
	case "%":
		tk = token.REM
	case "<<":
		tk = token.SHL
	case ">>":
		tk = token.SHR
	case "&":
		tk = token.AND
	case "|":
		tk = token.OR
	case "^":
		tk = token.XOR
	case "&^":
		tk = token.AND_NOT
	default:
		sfail("unknown operator %s", op)
	}
	// spec arithmetic on type int is mathematical in int mode
	if !o.M.BV && ty == tyInt {
		switch tk {
		case token.ADD:
			return SVal{V: o.Add(a, b), T: T}
		case token.SUB:
			return SVal{V: o.Sub(a, b), T: T}
		case token.MUL:
			return SVal{V: o.Mul(a, b), T: T}
		case token.QUO:
			return SVal{V: o.truncDiv(a, b), T: T}
		case token.REM:
			return SVal{V: o.truncRem(a, b), T: T}
		}
	}
	res, err := o.Arith(tk, ty, a, b, bt)
	if err != nil {
		sfail("%v (in spec operator %s)", err, op)
	}
	return SVal{V: res, T: T}
}

func (e *SpecEnv) floatBinop(op string, l, r SVal, T types.Type) SVal {
	o := e.o()
	a, ok1 := l.V.(*Term)
	b, ok2 := r.V.(*Term)
	if !ok1 || !ok2 {
		sfail("float operator %s needs typed operands", op)
	}
	switch op {
	case "<":
		return SVal{V: o.App("fp.lt", BoolSort, a, b), T: typBool}
	case "<=":
		return SVal{V: o.App("fp.leq", BoolSort, a, b), T: typBool}
	case ">":
		return SVal{V: o.App("fp.gt", BoolSort, a, b), T: typBool}
	case ">=":
		return SVal{V: o.App("fp.geq", BoolSort, a, b), T: typBool}
	}
	sfail("float operator %s not supported in specifications", op)
	return SVal{}
}

// equal builds the equality of two spec values.
func (e *SpecEnv) equal(l, r SVal) *Term {
	o := e.o()
	if _, ok := l.V.(nilMarker); ok {
		l, r = r, l
	}
	if _, ok := r.V.(nilMarker); ok {
		switch v := l.V.(type) {
		case ErrVal:
			return v.Nil
		case PtrVal:
			return v.Nil
		case SliceVal:
			return o.Eq(v.Reg, o.Int(0))
		case IfaceVal:
			return o.Eq(v.Tag, o.Int(0))
		case SubmatchVal:
			return o.Not(v.Matched)
		case FuncVal:
			return e.x.funcIsNil(v)
		}
		sfail("comparison of %T with nil", l.V)
	}
	if l.C != nil && r.C != nil {
		return o.Bool(l.C.Cmp(r.C) == 0)
	}
	if l.C != nil {
		l, r = r, l
	}
	if r.C != nil {
		ty, ok := intTyOf(l.T)
		if !ok {
			sfail("comparison of %T with integer constant", l.V)
		}
		return o.Eq(l.V.(*Term), o.Const(ty, r.C))
	}
	return e.x.valEq(e.st(), l.V, r.V)
}

func (e *SpecEnv) evalCall(n *ECall) SVal {
	o := e.o()
	// method call on value: x.Method(args)  (pure accessor with contract) -- limited support
	if sel, ok := n.Fun.(*ESel); ok {
		recv := e.eval(sel.X)
		return e.x.specMethodCall(e, recv, sel.Name, n.Args)
	}
	id, ok := n.Fun.(*EIdent)
	if !ok {
		sfail("unsupported call %s", n)
	}
	name := id.Name
	arg := func(i int) SVal {
		if i >= len(n.Args) {
			sfail("%s: missing argument %d", name, i)
		}
		return e.eval(n.Args[i])
	}
	switch name {
	case "old":
		sub := *e
		sub.inOld = true
		r := sub.eval(n.Args[0])
		if sl, ok := r.V.(SliceVal); ok {
			// the contents of a slice at function entry: a snapshot (indexing it later must not read the post-state)
			return SVal{V: e.x.seqView(e.pre, sl), T: typString}
		}
		return r
	case "ite":
		savedCG := e.x.catGoal
		e.x.catGoal = false
		c := e.evalBool(n.Args[0])
		e.x.catGoal = savedCG
		if c.IsTrue() {
			return arg(1)
		}
		if c.IsFalse() {
			return arg(2)
		}
		a, b := arg(1), arg(2)
		if a.C != nil && b.C != nil {
			a = SVal{V: o.Const(tyInt, a.C), T: typInt}
			b = SVal{V: o.Const(tyInt, b.C), T: typInt}
		} else if a.C != nil {
			ty, _ := intTyOf(b.T)
			a = SVal{V: o.Const(ty, a.C), T: b.T}
		} else if b.C != nil {
			ty, _ := intTyOf(a.T)
			b = SVal{V: o.Const(ty, b.C), T: a.T}
		}
		return SVal{V: e.x.iteVal(c, a.V, b.V), T: a.T}
	case "len":
		v := arg(0)
		return SVal{V: e.x.lenOf(v.V), T: typInt}
	case "cap":
		v := arg(0)
		if s, ok := v.V.(SliceVal); ok {
			return SVal{V: s.Cap, T: typInt}
		}
		sfail("cap of %T", v.V)
	case "errIs":
		v := arg(0)
		ev, ok := v.V.(ErrVal)
		if !ok {
			sfail("errIs: not an error value")
		}
		sn, ok := n.Args[1].(*EIdent)
		key := ""
		if ok {
			key = e.pk.Name + "." + sn.Name
		} else if s2, ok := n.Args[1].(*ESel); ok {
			key = s2.X.(*EIdent).Name + "." + s2.Name
		} else {
			sfail("errIs: second argument must name a sentinel")
		}
		if !e.x.w.isSentinel(key) {
			sfail("errIs: %s is not a sentinel error variable", key)
		}
		return SVal{V: o.And(o.Not(ev.Nil), orFalse(o, ev.Is[key])), T: typBool}
	case "errAs":
		v := arg(0)
		ev, ok := v.V.(ErrVal)
		if !ok {
			sfail("errAs: not an error value")
		}
		tt := n.Args[1].(*EType).Text
		return SVal{V: o.And(o.Not(ev.Nil), e.x.errAsLookup(e, ev, tt)), T: typBool}
	case "errData":
		v := arg(0)
		ev, ok := v.V.(ErrVal)
		if !ok {
			sfail("errData: not an error value")
		}
		key := n.Args[1].(*EStr).S
		d, ok := ev.Data[key]
		if !ok {
			switch key {
			case "inputLen", "origin":
				d = o.ConstI(tyInt, -1)
			case "digit":
				d = o.ConstI(tyByte, 0)
			default:
				sfail("errData: no component %q", key)
			}
		}
		var T types.Type = typInt
		if key == "digit" {
			T = typByte
		}
		return SVal{V: d, T: T}
	case "fresh":
		v := arg(0)
		s, ok := v.V.(SliceVal)
		if !ok {
			sfail("fresh: not a slice")
		}
		return SVal{V: o.Or(o.Ge(s.Reg, e.allocPre), o.Eq(s.Reg, o.Int(0))), T: typBool}
	case "sameSlice":
		v, w := arg(0), arg(1)
		s, ok1 := v.V.(SliceVal)
		b, ok2 := w.V.(SliceVal)
		if !ok1 || !ok2 {
			sfail("sameSlice: not slices")
		}
		return SVal{V: o.And(o.Eq(s.Reg, b.Reg), o.Eq(s.Off, b.Off), o.Eq(s.Len, b.Len), o.Eq(s.Cap, b.Cap)), T: typBool}
	case "sameOrFresh":
		v, w := arg(0), arg(1)
		s, ok1 := v.V.(SliceVal)
		b, ok2 := w.V.(SliceVal)
		if !ok1 || !ok2 {
			sfail("sameOrFresh: not slices")
		}
		return SVal{V: o.Or(o.And(o.Eq(s.Reg, b.Reg), o.Eq(s.Off, b.Off), o.Eq(s.Cap, b.Cap)), o.Ge(s.Reg, e.allocPre)), T: typBool}
	case "in":
		// in(patternVar, seq): membership in the language of a regexp variable of the package
		pn, ok := n.Args[0].(*EIdent)
		if !ok {
			sfail("in: first argument must name a regexp variable")
		}
		v := arg(1)
		sv := e.x.seqView(e.st(), v.V)
		return SVal{V: e.x.inLang(e.pk, pn.Name, sv), T: typBool}
	case "decOK", "decVal":
		// strconv.ParseUint(s, 10, 64): whether it succeeds / its value
		v := arg(0)
		ok, val := e.x.parseUintTerms(e.x.seqView(e.st(), v.V))
		if name == "decOK" {
			return SVal{V: ok, T: typBool}
		}
		return SVal{V: val, T: types.Typ[types.Uint64]}
	case "decText":
		// the canonical decimal text of an unsigned integer
		v := arg(0)
		return SVal{V: e.x.digitsOf(e.asInt(v, tyUint64), 10, 20, 0, true), T: typString}
	case "submatch":
		// submatch(pattern, seq, k): the k-th capture of the match of seq by the package's regexp variable
		pn, ok := n.Args[0].(*EIdent)
		if !ok {
			sfail("submatch: first argument must name a regexp variable")
		}
		ri, err := e.x.w.regexInfo(e.pk, pn.Name)
		if err != nil {
			sfail("%v", err)
		}
		v := arg(1)
		kk := arg(2)
		if kk.C == nil {
			sfail("submatch: capture index must be constant")
		}
		view := e.x.seqView(e.st(), v.V)
		ent := e.x.submatchOf(ri, view)
		k := int(kk.C.Int64())
		if k < 1 || k > ri.NumCap {
			sfail("submatch: capture %d out of range", k)
		}
		return SVal{V: StrVal{Arr: view.Arr, Off: o.IdxAdd(view.Off, ent.starts[k]), Len: ent.lens[k]}, T: typString}
	case "inre":
		// inre(NAME, seq): membership in a regexp declared in the contract file with `regex NAME = ...`
		pn, ok := n.Args[0].(*EIdent)
		if !ok {
			sfail("inre: first argument must name a `regex` of the contract file")
		}
		pat, ok := e.pk.Contracts.Regexes[pn.Name]
		if !ok {
			sfail("inre: unknown regex %s", pn.Name)
		}
		ri, err := e.x.w.specRegex(e.pk.Name+".spec."+pn.Name, "^(?:"+pat+")$")
		if err != nil {
			sfail("inre: %v", err)
		}
		v := arg(1)
		return SVal{V: e.x.inLangRI(ri, e.x.seqView(e.st(), v.V)), T: typBool}
	case "reported":
		// reported(): the call made at least one report (TestingT.Errorf, directly or through testify)
		post, _ := e.post.Ghost["reports"].(*Term)
		pre, _ := e.pre.Ghost["reports"].(*Term)
		if post == nil {
			post = o.Int(0)
		}
		if pre == nil {
			pre = o.Int(0)
		}
		return SVal{V: o.Lt(pre, post), T: typBool}
	case "reportedInStep":
		// in a `step` clause: this iteration of the loop made at least one report
		if e.iterReports == nil {
			sfail("reportedInStep() outside a loop step clause")
		}
		post, _ := e.post.Ghost["reports"].(*Term)
		if post == nil {
			post = o.Int(0)
		}
		return SVal{V: o.Lt(e.iterReports, post), T: typBool}
	case "panicked":
		// panicked(): this return is reached through a recovered panic (the function's recover block)
		if e.calleePanicked != nil {
			return SVal{V: e.calleePanicked, T: typBool}
		}
		if p, ok := e.post.Ghost["$panicked"].(*Term); ok {
			return SVal{V: p, T: typBool}
		}
		return SVal{V: o.False(), T: typBool}
	case "callres":
		// callres("callee", k [, i]): result (i-th result) of the k-th call of `callee` in the function's source;
		// arbitrary when that call was not executed on the path
		if len(n.Args) < 2 {
			sfail("callres(name, k [, i])")
		}
		nm, ok := n.Args[0].(*EStr)
		if !ok {
			sfail("callres: the callee name must be a string literal")
		}
		kv := arg(1)
		if kv.C == nil {
			sfail("callres: the ordinal must be a constant")
		}
		site, ikey := e.x.callSite(nm.S, int(kv.C.Int64()))
		if site == nil {
			sfail("callres: the function has no call #%d of %q", kv.C.Int64(), nm.S)
		}
		val := site.Value()
		var v Val
		if ikey == "" {
			v = e.x.regOrArbitrary(e.post, val)
		} else if iv, ok := e.x.inlinedCallRes[ikey]; ok {
			v = iv
		} else {
			v = e.x.regOrArbitraryT(val, val.Type())
		}
		t := val.Type()
		if len(n.Args) >= 3 {
			iv := arg(2)
			tv, isTup := v.(TupleVal)
			tup, _ := t.(*types.Tuple)
			if iv.C == nil || !isTup || tup == nil || int(iv.C.Int64()) >= len(tv) {
				sfail("callres: bad result index")
			}
			return SVal{V: tv[iv.C.Int64()], T: tup.At(int(iv.C.Int64())).Type()}
		}
		return SVal{V: v, T: t}
	case "callReported":
		// callReported("callee", k): the k-th call of `callee` (source order) made a report; arbitrary when that call
		// was not executed on the path
		nm, ok := n.Args[0].(*EStr)
		kv := arg(1)
		if !ok || kv.C == nil {
			sfail("callReported(name, k)")
		}
		site, ikey := e.x.callSite(nm.S, int(kv.C.Int64()))
		if site != nil && ikey != "" {
			if r, ok := e.x.inlinedCallRep[ikey]; ok {
				return SVal{V: r, T: typBool}
			}
			site = nil // did not run: arbitrary, as below
		}
		if site == nil {
			// the function makes no such call: like a call that did not run, the answer is arbitrary (a clause that
			// needs the call then fails as an obligation instead of stopping the check)
			key := fmt.Sprintf("$reparb.%s.%d", nm.S, kv.C.Int64())
			if e.x.arbBools == nil {
				e.x.arbBools = map[string]*Term{}
			}
			if _, ok := e.x.arbBools[key]; !ok {
				e.x.arbBools[key] = o.Fresh("nocall.reported."+sanitize(nm.S), BoolSort)
			}
			return SVal{V: e.x.arbBools[key], T: typBool}
		}
		if _, ran := e.post.Regs[site.Value()]; ran || site.Value().Type().String() == "()" {
			if r, ok := e.post.Ghost["$rep."+site.Value().Name()].(*Term); ok {
				return SVal{V: r, T: typBool}
			}
		}
		key := "$reparb." + site.Value().Name()
		if e.x.arbBools == nil {
			e.x.arbBools = map[string]*Term{}
		}
		if _, ok := e.x.arbBools[key]; !ok {
			e.x.arbBools[key] = o.Fresh("notrun.reported."+site.Value().Name(), BoolSort)
		}
		return SVal{V: e.x.arbBools[key], T: typBool}
	case "implementsV", "implementsP":
		// implementsV(T, I): the method set of T implements interface I; implementsP: that of *T
		tt := e.specType(n.Args[0])
		it := e.specType(n.Args[1])
		iface, ok := it.Underlying().(*types.Interface)
		if !ok {
			sfail("%s: %s is not an interface type", name, it)
		}
		if name == "implementsP" {
			tt = types.NewPointer(tt)
		}
		return SVal{V: o.Bool(types.Implements(tt, iface)), T: typBool}
	case "ucall":
		// ucall(k, i): i-th result of the k-th call of an unknown callee executed by this function
		kv, iv := arg(0), arg(1)
		if kv.C == nil || iv.C == nil {
			sfail("ucall(k, i): constants expected")
		}
		k, i := int(kv.C.Int64()), int(iv.C.Int64())
		if k >= len(e.x.ucalls) || i >= len(e.x.ucalls[k].Results) {
			sfail("ucall(%d, %d): the function made no such call", k, i)
		}
		return SVal{V: e.x.ucalls[k].Results[i], T: e.x.ucalls[k].Types[i]}
	case "local":
		// local("name"): current contents of a local variable that lives in memory (its address is taken)
		nm, ok := n.Args[0].(*EStr)
		if !ok {
			sfail("local: the variable name must be a string literal")
		}
		v, t, found := e.x.localVar(e.post, nm.S)
		if !found {
			sfail("local: no addressable local variable %q", nm.S)
		}
		return SVal{V: v, T: t}
	case "sameErr":
		a, aok := arg(0).V.(ErrVal)
		b, bok := arg(1).V.(ErrVal)
		if !aok || !bok {
			sfail("sameErr: error values expected")
		}
		return SVal{V: e.x.errSame(a, b), T: typBool}
	case "isNilSlice":
		sv, ok := arg(0).V.(SliceVal)
		if !ok {
			sfail("isNilSlice: not a byte slice")
		}
		return SVal{V: o.Eq(sv.Reg, o.Int(0)), T: typBool}
	case "errMsg":
		ev, ok := arg(0).V.(ErrVal)
		if !ok {
			sfail("errMsg: not an error value")
		}
		return SVal{V: e.x.errMsg(ev), T: typString}
	case "hasPrefix", "hasSuffix":
		a, b := arg(0), arg(1)
		return SVal{V: e.x.hasAffix(e.x.seqView(e.st(), a.V), e.x.seqView(e.st(), b.V), name == "hasSuffix"), T: typBool}
	case "reValid":
		a := arg(0)
		v, _ := e.x.reTerms(e.x.seqView(e.st(), a.V), StrVal{Arr: e.x.o.ConstArray(e.x.o.ByteArr(), e.x.o.Int(0)), Off: e.x.o.Int(0), Len: e.x.o.Int(0)})
		return SVal{V: v, T: typBool}
	case "reMatches":
		a, b := arg(0), arg(1)
		_, m := e.x.reTerms(e.x.seqView(e.st(), a.V), e.x.seqView(e.st(), b.V))
		return SVal{V: m, T: typBool}
	case "firstDiff":
		// firstDiff(a, b): first index where the sequences differ (the shorter length if one is a prefix of the other)
		a, b := arg(0), arg(1)
		return SVal{V: e.x.firstDiff(e.x.seqView(e.st(), a.V), e.x.seqView(e.st(), b.V)), T: typInt}
	case "indexByte", "lastIndexByte":
		v := arg(0)
		c := e.asInt(arg(1), tyByte)
		return SVal{V: e.x.indexByte(e.x.seqView(e.st(), v.V), c, name == "lastIndexByte"), T: typInt}
	case "trailRun":
		// trailRun(seq, c1, c2, ...): number of trailing bytes of seq that are one of the given characters
		v := arg(0)
		var set [128]bool
		for i := 1; i < len(n.Args); i++ {
			c := arg(i)
			if c.C == nil || !c.C.IsInt64() || c.C.Int64() < 0 || c.C.Int64() > 127 {
				sfail("trailRun: characters must be ASCII constants")
			}
			set[c.C.Int64()] = true
		}
		return SVal{V: e.x.trailRun(e.x.seqView(e.st(), v.V), set), T: typInt}
	case "leadRun":
		// leadRun(seq, c1, c2, ...): number of leading bytes of seq that are one of the given characters
		v := arg(0)
		var set [128]bool
		for i := 1; i < len(n.Args); i++ {
			c := arg(i)
			if c.C == nil || !c.C.IsInt64() || c.C.Int64() < 0 || c.C.Int64() > 127 {
				sfail("leadRun: characters must be ASCII constants")
			}
			set[c.C.Int64()] = true
		}
		return SVal{V: e.x.leadRun(e.x.seqView(e.st(), v.V), set), T: typInt}
	case "heapSameExcept":
		// heapSameExcept(s): every byte of memory outside the elements of slice s has its value from function entry
		v := arg(0)
		sl, ok := v.V.(SliceVal)
		if !ok {
			sfail("heapSameExcept: not a byte slice")
		}
		r := o.BoundVar("r", IntSort)
		i := o.BoundVar("i", o.IdxSort())
		inside := o.And(o.Eq(r, sl.Reg), o.IdxLe(sl.Off, i), o.IdxLt(i, o.IdxAdd(sl.Off, sl.Len)))
		body := o.Implies(o.And(o.Le(o.Int(0), r), o.Lt(r, e.allocPre), o.Not(inside)), o.Eq(o.Select(o.Select(e.st().H, r), i), o.Select(o.Select(e.pre.H, r), i)))
		return SVal{V: o.Forall([]*Term{r, i}, body), T: typBool}
	case "heapSame":
		// every byte of pre-existing memory has its value from function entry
		r := o.BoundVar("r", IntSort)
		i := o.BoundVar("i", o.IdxSort())
		body := o.Implies(o.And(o.Le(o.Int(0), r), o.Lt(r, e.allocPre)), o.Eq(o.Select(o.Select(e.st().H, r), i), o.Select(o.Select(e.pre.H, r), i)))
		return SVal{V: o.Forall([]*Term{r, i}, body), T: typBool}
	case "heapSameExceptFrom":
		// heapSameExceptFrom(s, lo): every byte of pre-existing memory other than s[lo:cap(s)] is unchanged
		v := arg(0)
		sl, ok := v.V.(SliceVal)
		if !ok {
			sfail("heapSameExceptFrom: not a byte slice")
		}
		lo := e.asInt(arg(1), tyInt)
		r := o.BoundVar("r", IntSort)
		i := o.BoundVar("i", o.IdxSort())
		inside := o.And(o.Eq(r, sl.Reg), o.IdxLe(o.IdxAdd(sl.Off, lo), i), o.IdxLt(i, o.IdxAdd(sl.Off, sl.Cap)))
		body := o.Implies(o.And(o.Le(o.Int(0), r), o.Lt(r, e.allocPre), o.Not(inside)), o.Eq(o.Select(o.Select(e.st().H, r), i), o.Select(o.Select(e.pre.H, r), i)))
		return SVal{V: o.Forall([]*Term{r, i}, body), T: typBool}
	case "lowerIs":
		// strings.ToLower(s) == lit, for a lower-case ASCII literal
		v := arg(0)
		lit, ok := n.Args[1].(*EStr)
		if !ok {
			sfail("lowerIs(s, \"literal\")")
		}
		return SVal{V: e.x.lowerEqLit(e.x.seqView(e.st(), v.V), lit.S), T: typBool}
	case "decPos", "decDepth", "decAtKey", "decInObj", "decNTok", "decGarbage", "tokKind", "tokText", "decDoc", "tokIsKey", "tokNKeys", "tokIsClose":
		// ghost state / token stream of a json decoder value
		v := arg(0)
		_, d := e.x.decoderOf(e.st(), v.V)
		switch name {
		case "decPos":
			return SVal{V: d.Pos, T: typInt}
		case "decDepth":
			return SVal{V: d.Depth, T: typInt}
		case "decAtKey":
			return SVal{V: d.AtKey, T: typBool}
		case "decInObj":
			return SVal{V: d.InObj, T: typBool}
		case "decNTok":
			return SVal{V: e.x.nTok(d.View), T: typInt}
		case "decGarbage":
			return SVal{V: e.x.jsonGarbage(d.View), T: typBool}
		case "decDoc":
			return SVal{V: d.View, T: typString}
		case "tokNKeys":
			return SVal{V: e.x.tokNKeys(d.View, e.asInt(arg(1), tyInt)), T: typInt}
		case "tokIsKey":
			return SVal{V: e.x.tokIsKey(d.View, e.asInt(arg(1), tyInt)), T: typBool}
		case "tokIsClose":
			return SVal{V: e.x.tokIsClose(d.View, e.asInt(arg(1), tyInt)), T: typBool}
		case "tokKind":
			return SVal{V: e.x.tokKind(d.View, e.asInt(arg(1), tyInt)), T: typInt}
		case "tokText":
			return SVal{V: e.x.tokText(d.View, e.asInt(arg(1), tyInt)), T: typString}
		}
	case "docNTok", "docGarbage", "docKind", "docText", "docIsKey", "docNKeys", "docIsClose":
		// the token stream of a text (as encoding/json would deliver it)
		v := arg(0)
		view := e.x.seqView(e.st(), v.V)
		switch name {
		case "docNTok":
			return SVal{V: e.x.nTok(view), T: typInt}
		case "docGarbage":
			return SVal{V: e.x.jsonGarbage(view), T: typBool}
		case "docKind":
			return SVal{V: e.x.tokKind(view, e.asInt(arg(1), tyInt)), T: typInt}
		case "docText":
			return SVal{V: e.x.tokText(view, e.asInt(arg(1), tyInt)), T: typString}
		case "docIsKey":
			return SVal{V: e.x.tokIsKey(view, e.asInt(arg(1), tyInt)), T: typBool}
		case "docIsClose":
			return SVal{V: e.x.tokIsClose(view, e.asInt(arg(1), tyInt)), T: typBool}
		case "docNKeys":
			return SVal{V: e.x.tokNKeys(view, e.asInt(arg(1), tyInt)), T: typInt}
		}
	case "rangePos":
		// the byte position of the (single) string iterator of the function
		st := e.st()
		var found Val
		for obj, v := range st.Cells {
			if strings.HasPrefix(obj.Name, "rangeiter:") {
				if found != nil {
					sfail("rangePos: more than one string iterator in scope")
				}
				found = v
			}
		}
		if found == nil {
			sfail("rangePos: no string iterator in scope")
		}
		return SVal{V: found, T: typInt}
	case "theBuilder":
		st := e.st()
		var found Val
		for obj, v := range st.Cells {
			if strings.Contains(obj.T.String(), "strings.Builder") {
				if found != nil {
					sfail("theBuilder: more than one strings.Builder in scope")
				}
				found = v
			}
		}
		if found == nil {
			sfail("theBuilder: no strings.Builder in scope")
		}
		if _, isStruct := found.(StructVal); isStruct {
			found = e.x.zeroVal(types.NewSlice(typByte))
		}
		return SVal{V: found, T: types.NewSlice(typByte)}
	case "theBuffer":
		// the contents of the (single) bytes.Buffer object of the function, as a byte slice
		st := e.st()
		var found Val
		for obj, v := range st.Cells {
			if obj.Name == "bytes.Buffer" {
				if found != nil {
					sfail("theBuffer: more than one bytes.Buffer in scope")
				}
				found = v
			}
		}
		if found == nil {
			sfail("theBuffer: no bytes.Buffer in scope")
		}
		return SVal{V: found, T: types.NewSlice(typByte)}
	case "seq":
		// seq(b0, b1, ...) : the byte sequence of its arguments
		arr := e.x.freshByteArr("seq")
		var cur *Term = arr
		for i := range n.Args {
			cur = o.Store(cur, o.Idx(int64(i)), e.asInt(arg(i), tyByte))
		}
		return SVal{V: StrVal{Arr: cur, Off: o.Idx(0), Len: o.Idx(int64(len(n.Args)))}, T: typString}
	case "fdiv", "fmod":
		// floor division / modulus by a positive constant divisor
		a, b := arg(0), arg(1)
		if b.C == nil || b.C.Sign() <= 0 {
			sfail("%s: divisor must be a positive constant", name)
		}
		if a.C != nil {
			q, m := floorDivMod(a.C, b.C)
			if name == "fdiv" {
				return SVal{C: q}
			}
			return SVal{C: m}
		}
		at := e.asInt(a, tyInt)
		if !o.M.BV {
			if name == "fdiv" {
				return SVal{V: o.Div(at, o.IntBig(b.C)), T: typInt}
			}
			return SVal{V: o.Mod(at, o.IntBig(b.C)), T: typInt}
		}
		bt := o.BV(b.C, 64)
		r := o.BVOp("bvsrem", at, bt)
		m := o.Ite(o.BVCmp("bvslt", r, o.BVi(0, 64)), o.BVOp("bvadd", r, bt), r)
		if name == "fmod" {
			return SVal{V: m, T: typInt}
		}
		return SVal{V: o.BVOp("bvsdiv", o.BVOp("bvsub", at, m), bt), T: typInt}
	case "timeYear", "timeMonth", "timeDay", "timeIsZero", "timeUTCMidnight":
		v := arg(0)
		tv, ok := v.V.(TimeVal)
		if !ok {
			sfail("%s: not a time.Time", name)
		}
		switch name {
		case "timeYear":
			return SVal{V: tv.Y, T: typInt}
		case "timeMonth":
			return SVal{V: tv.M, T: typInt}
		case "timeDay":
			return SVal{V: tv.D, T: typInt}
		case "timeUTCMidnight":
			return SVal{V: tv.UTCMid, T: typBool}
		}
		return SVal{V: tv.Zero, T: typBool}
	case "numIsZero", "numIsNat64", "numToU64", "typeMaxU64", "typeIsFloat", "mantBits", "numIsNeg":
		// numeric-kind generic helpers (the argument's static type decides the meaning)
		v := arg(0)
		if v.T == nil {
			sfail("%s needs a typed argument", name)
		}
		if ity, ok := intTyOf(v.T); ok {
			t := v.V.(*Term)
			switch name {
			case "numIsZero":
				return SVal{V: o.Eq(t, o.ConstI(ity, 0)), T: typBool}
			case "numIsNeg":
				return SVal{V: o.Cmp(token.LSS, ity, t, o.ConstI(ity, 0)), T: typBool}
			case "numIsNat64":
				return SVal{V: o.Cmp(token.GEQ, ity, t, o.ConstI(ity, 0)), T: typBool}
			case "numToU64":
				return SVal{V: o.ConvInt(ity, tyUint64, t), T: types.Typ[types.Uint64]}
			case "typeMaxU64":
				return SVal{V: o.Const(tyUint64, ity.Max()), T: types.Typ[types.Uint64]}
			case "typeIsFloat":
				return SVal{V: o.False(), T: typBool}
			case "mantBits":
				return SVal{C: big.NewInt(64)}
			}
		}
		if fe, fs, ok := floatTyOf(v.T); ok {
			if !o.M.BV {
				sfail("%s on a float needs mode bv", name)
			}
			f := v.V.(*Term)
			rtz := o.App("RTZ", &Sort{Kind: SRM})
			two64 := e.x.floatConst(18446744073709551616.0, fe, fs)
			zero := e.x.floatConst(0, fe, fs)
			switch name {
			case "numIsZero":
				return SVal{V: o.App("fp.isZero", BoolSort, f), T: typBool}
			case "numIsNeg":
				return SVal{V: o.App("fp.lt", BoolSort, f, zero), T: typBool}
			case "numIsNat64":
				// finite, >= 0, < 2^64, an integer
				return SVal{V: o.And(o.Not(o.App("fp.isNaN", BoolSort, f)), o.Not(o.App("fp.isInfinite", BoolSort, f)),
					o.App("fp.geq", BoolSort, f, zero), o.App("fp.lt", BoolSort, f, two64),
					o.App("fp.eq", BoolSort, o.App("fp.roundToIntegral", f.Sort, rtz, f), f)), T: typBool}
			case "numToU64":
				return SVal{V: o.App("(_ fp.to_ubv 64)", BVSort(64), rtz, f), T: types.Typ[types.Uint64]}
			case "typeIsFloat":
				return SVal{V: o.True(), T: typBool}
			case "mantBits":
				return SVal{C: big.NewInt(int64(fs))}
			case "typeMaxU64":
				return SVal{V: o.BVi(0, 64), T: types.Typ[types.Uint64]} // (only meaningful for integer kinds)
			}
		}
		sfail("%s: unsupported numeric type %s", name, v.T)
	case "mulFits64":
		a, b := e.asInt(arg(0), tyUint64), e.asInt(arg(1), tyUint64)
		if o.M.BV {
			p := o.BVOp("bvmul", o.ZeroExt(64, a), o.ZeroExt(64, b))
			return SVal{V: o.Eq(o.Extract(127, 64, p), o.BVi(0, 64)), T: typBool}
		}
		return SVal{V: o.Lt(o.Mul(a, b), o.IntBig(two64)), T: typBool}
	case "bitLen", "trailingZeros":
		a := e.asInt(arg(0), tyUint64)
		if !o.M.BV {
			sfail("%s needs mode bv", name)
		}
		// ite chains over the 64 bit positions
		var r *Term
		if name == "bitLen" {
			r = o.BVi(0, 64)
			for k := 0; k < 64; k++ { // highest set bit wins: build from low to high
				r = o.Ite(o.Eq(o.Extract(k, k, a), o.BVi(1, 1)), o.BVi(int64(k+1), 64), r)
			}
		} else {
			r = o.BVi(64, 64)
			for k := 63; k >= 0; k-- { // lowest set bit wins: build from high to low
				r = o.Ite(o.Eq(o.Extract(k, k, a), o.BVi(1, 1)), o.BVi(int64(k), 64), r)
			}
		}
		return SVal{V: r, T: typInt}
	case "mathint":
		// the mathematical value of an integer expression (no wrap-around; int mode)
		v := arg(0)
		if v.C != nil {
			return v
		}
		if o.M.BV {
			sfail("mathint is only available in int mode")
		}
		return SVal{V: v.V, T: typInt}
	case "bool2int":
		return SVal{V: o.Ite(e.evalBool(n.Args[0]), o.Idx(1), o.Idx(0)), T: typInt}
	}
	// type conversion
	if t := e.lookupType(name); t != nil && len(n.Args) == 1 {
		return e.convert(arg(0), t)
	}
	// pure function of the package (or imported module package via pkg.f -- not needed yet)
	if pf, ok := e.pk.Contracts.Pures[name]; ok {
		return e.callPure(e.pk, pf, n.Args)
	}
	if ip := e.x.w.Pkgs["internal"]; ip != nil && ip != e.pk {
		if pf, ok := ip.Contracts.Pures[name]; ok {
			return e.callPure(ip, pf, n.Args)
		}
	}
	// a module function declared `pure`: its uninterpreted application
	if fc, ok := e.pk.Contracts.Funcs[name]; ok && fc.Pure {
		fn := e.pk.LookupFunc(name)
		if fn == nil {
			sfail("pure function %s not found", name)
		}
		var args []Val
		for i := range n.Args {
			a := arg(i)
			if a.C != nil {
				ity, _ := intTyOf(fn.Params[i].Type())
				args = append(args, o.Const(ity, a.C))
			} else {
				args = append(args, a.V)
			}
		}
		pv := e.x.pureResults(fn, fc, args, e.st())
		e.assumePureContract(fn, fc, args, pv)
		if len(pv) == 1 {
			return SVal{V: pv[0], T: fn.Signature.Results().At(0).Type()}
		}
		return SVal{V: TupleVal(pv), T: fn.Signature.Results()}
	}
	sfail("unknown function %q in specification", name)
	return SVal{}
}

// assumePureContract: an application of a pure function written in a specification obeys that function's contract
// (requires ==> ensures), as its applications in code do. Not used for the function being verified itself.
func (e *SpecEnv) assumePureContract(fn *ssa.Function, fc *FuncContract, args []Val, results []Val) {
	x := e.x
	if x.fn == fn || len(results) == 0 || results[0] == nil || e.depth > 6 {
		return
	}
	var key *Term
	switch r := results[0].(type) {
	case *Term:
		key = r
	case StrVal:
		key = r.Len
	}
	if key == nil {
		return
	}
	if x.pureSpecDone == nil {
		x.pureSpecDone = map[*Term]bool{}
	}
	if x.pureSpecDone[key] {
		return
	}
	x.pureSpecDone[key] = true
	o := e.o()
	sub := &SpecEnv{x: x, pk: e.pk, vars: map[string]SVal{}, pre: e.st(), post: e.st(), tparams: tparamMap(fn), depth: e.depth + 1, allocPre: e.allocPre}
	for i, p := range fn.Params {
		sub.vars[p.Name()] = SVal{V: args[i], T: p.Type()}
	}
	res := fn.Signature.Results()
	names := resultNames(fn)
	for i := range results {
		for _, n := range names[i] {
			sub.vars[n] = SVal{V: results[i], T: res.At(i).Type()}
		}
	}
	var reqs, ens []*Term
	for _, c := range fc.Requires {
		reqs = append(reqs, sub.evalBool(c.E))
	}
	for _, c := range fc.Ensures {
		ens = append(ens, sub.evalBool(c.E))
	}
	x.assumeClosed(o.Implies(o.And(reqs...), o.And(ens...)))
}

func (x *Exec) opaqueList() map[string]bool {
	if x.opaque == nil {
		x.opaque = map[string]bool{}
		if x.fc != nil {
			for _, n := range strings.Split(x.rootOpts["opaque"], ",") {
				if n = strings.TrimSpace(n); n != "" {
					x.opaque[n] = true
				}
			}
		}
	}
	return x.opaque
}

func (e *SpecEnv) callPure(pk *Pkg, pf *PureFunc, args []Expr) SVal {
	if len(args) != len(pf.Params) {
		sfail("pure func %s: %d arguments, want %d", pf.Name, len(args), len(pf.Params))
	}
	if e.depth > 40 {
		sfail("pure func %s: recursion too deep", pf.Name)
	}
	if pf.Rec {
		return e.callRec(pk, pf, args)
	}
	{
		if ol := e.x.opaqueList(); ol[pf.Name] {
			// `opt opaque f`: within this function's verification f is an uninterpreted function of its arguments
			// (sound: fewer facts; useful when only f's identity matters and its definition drowns the solver)
			var ts []*Term
			var flat func(v Val)
			flat = func(v Val) {
				switch t := v.(type) {
				case *Term:
					ts = append(ts, t)
				case StructVal:
					for _, f := range t.F {
						flat(f)
					}
				default:
					sfail("opaque %s: argument of unsupported shape %T", pf.Name, v)
				}
			}
			for _, a := range args {
				av := e.eval(a)
				if av.C != nil {
					ts = append(ts, e.o().IntBig(av.C))
				} else {
					flat(av.V)
				}
			}
			rt := e.lookupType(pf.Result)
			srt := IntSort
			if rt == typBool {
				srt = BoolSort
			}
			if e.o().M.BV {
				sfail("opaque specification functions need `mode int`")
			}
			return SVal{V: e.o().UF("opaque."+pk.Name+"."+pf.Name, srt, ts...), T: rt}
		}
	}
	sub := &SpecEnv{x: e.x, pk: pk, vars: map[string]SVal{}, pre: e.pre, post: e.post, inOld: e.inOld, tparams: e.tparams, depth: e.depth + 1, allocPre: e.allocPre}
	for i, p := range pf.Params {
		v := e.eval(args[i])
		pt := sub.lookupType(p.Type)
		if pt == nil {
			sfail("pure func %s: unknown parameter type %s", pf.Name, p.Type)
		}
		// coerce untyped constants to the parameter type
		if v.C != nil {
			if ity, ok := intTyOf(pt); ok {
				// keep constants untyped for `int` so that expansions stay constant
				if ity == tyInt {
					sub.vars[p.Name] = v
					continue
				}
				v = SVal{V: e.o().Const(ity, v.C), T: pt}
			}
		} else if p.Type == "bytes" {
			v = SVal{V: e.x.seqView(e.st(), v.V), T: typString}
		} else {
			v.T = pt
		}
		sub.vars[p.Name] = v
	}
	res := sub.eval(pf.Body)
	rt := sub.lookupType(pf.Result)
	if rt == nil {
		sfail("pure func %s: unknown result type %s", pf.Name, pf.Result)
	}
	if res.C != nil {
		if ity, ok := intTyOf(rt); ok && ity != tyInt {
			return SVal{V: e.o().Const(ity, res.C), T: rt}
		}
		return res
	}
	res.T = rt
	return res
}

// callRec: application of a recursive specification function. The function is an SMT function defined by its
// equation (define-funs-rec); a `bytes` parameter is passed as (array, offset, length), other parameters and the
// result are mathematical integers or booleans.
func (e *SpecEnv) callRec(pk *Pkg, pf *PureFunc, args []Expr) SVal {
	o := e.o()
	if o.M.BV {
		sfail("rec func %s: only available in int mode", pf.Name)
	}
	name := "rec." + pk.Name + "." + pf.Name
	rt := e.lookupType(pf.Result)
	if rt == nil {
		sfail("rec func %s: unknown result type %s", pf.Name, pf.Result)
	}
	resSort := IntSort
	if rt == typBool {
		resSort = BoolSort
	}
	var actual []*Term
	for i, p := range pf.Params {
		v := e.eval(args[i])
		if p.Type == "bytes" {
			sv := e.x.seqView(e.st(), v.V)
			actual = append(actual, sv.Arr, sv.Off, sv.Len)
			continue
		}
		if v.C != nil {
			actual = append(actual, o.IntBig(v.C))
			continue
		}
		t, ok := v.V.(*Term)
		if !ok || (t.Sort != IntSort && t.Sort != BoolSort) {
			sfail("rec func %s: argument %d is not an integer or boolean", pf.Name, i)
		}
		actual = append(actual, t)
	}
	app := o.UF(name, resSort, actual...)
	if e.x.recDefined == nil {
		e.x.recDefined = map[string]bool{}
	}
	if !e.x.recDefined[name] {
		e.x.recDefined[name] = true
		sub := &SpecEnv{x: e.x, pk: pk, vars: map[string]SVal{}, pre: e.pre, post: e.post, tparams: e.tparams, depth: e.depth + 1, allocPre: e.allocPre}
		var params []*Term
		for _, p := range pf.Params {
			if p.Type == "bytes" {
				a, off, l := o.BoundVar(p.Name+".arr", o.ByteArr()), o.BoundVar(p.Name+".off", IntSort), o.BoundVar(p.Name+".len", IntSort)
				params = append(params, a, off, l)
				sub.vars[p.Name] = SVal{V: StrVal{Arr: a, Off: off, Len: l}, T: typString}
				continue
			}
			pt := sub.lookupType(p.Type)
			if pt == nil {
				sfail("rec func %s: unknown parameter type %s", pf.Name, p.Type)
			}
			srt := IntSort
			if pt == typBool {
				srt = BoolSort
			}
			b := o.BoundVar(p.Name, srt)
			params = append(params, b)
			sub.vars[p.Name] = SVal{V: b, T: pt}
		}
		e.x.quantDepth++
		body := sub.eval(pf.Body)
		e.x.quantDepth--
		var bt *Term
		if body.C != nil {
			bt = o.IntBig(body.C)
		} else {
			bt, _ = body.V.(*Term)
		}
		if bt == nil || bt.Sort != resSort {
			sfail("rec func %s: body is not of the declared result sort", pf.Name)
		}
		o.DefineRec(name, params, bt)
	}
	return SVal{V: app, T: rt}
}

func (e *SpecEnv) convert(v SVal, t types.Type) SVal {
	o := e.o()
	if ity, ok := intTyOf(t); ok {
		if v.C != nil {
			return SVal{V: o.Const(ity, v.C), T: t}
		}
		if from, ok := intTyOf(v.T); ok {
			return SVal{V: o.ConvInt(from, ity, v.V.(*Term)), T: t}
		}
		if _, _, isF := floatTyOf(v.T); isF {
			return SVal{V: e.x.floatToInt(v.V.(*Term), ity), T: t}
		}
		sfail("conversion to %s from %s", t, v.T)
	}
	if fe, fs, ok := floatTyOf(t); ok {
		if from, ok := intTyOf(v.T); ok {
			return SVal{V: e.x.intToFloat(v.V.(*Term), from, fe, fs), T: t}
		}
	}
	if isStringType(t) {
		return SVal{V: e.x.seqView(e.st(), v.V), T: t}
	}
	if sl, ok := t.Underlying().(*types.Slice); ok {
		if b, ok := sl.Elem().Underlying().(*types.Basic); ok && b.Kind() == types.Uint8 {
			return SVal{V: e.x.seqView(e.st(), v.V), T: typString}
		}
	}
	// named type with same underlying representation
	v.T = t
	return v
}

// specType resolves a type named in a specification: a type parameter of the function, a type of the package, or
// pkg.Name of an imported package.
func (e *SpecEnv) specType(ex Expr) types.Type {
	switch n := ex.(type) {
	case *EIdent:
		if t, ok := e.tparams[n.Name]; ok {
			return t
		}
		if obj, ok := e.pk.P.Types.Scope().Lookup(n.Name).(*types.TypeName); ok {
			return obj.Type()
		}
	case *EType:
		if t, ok := e.tparams[n.Text]; ok {
			return t
		}
		if k := strings.LastIndex(n.Text, "."); k >= 0 {
			for _, imp := range e.pk.P.Types.Imports() {
				if imp.Name() == n.Text[:k] || imp.Path() == n.Text[:k] {
					if obj, ok := imp.Scope().Lookup(n.Text[k+1:]).(*types.TypeName); ok {
						return obj.Type()
					}
				}
			}
		}
		if obj, ok := e.pk.P.Types.Scope().Lookup(n.Text).(*types.TypeName); ok {
			return obj.Type()
		}
	case *ESel:
		if id, ok := n.X.(*EIdent); ok {
			for _, imp := range e.pk.P.Types.Imports() {
				if imp.Name() == id.Name {
					if obj, ok := imp.Scope().Lookup(n.Name).(*types.TypeName); ok {
						return obj.Type()
					}
				}
			}
		}
	}
	sfail("cannot resolve type %s", ex)
	return nil
}
