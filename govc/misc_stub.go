package main

import (
	"go/types"

	"golang.org/x/tools/go/ssa"
)

func (x *Exec) assertToInterface(st *State, t *ssa.TypeAssert, iv IfaceVal) Val {
	// only for interface values of statically known dynamic type: whether that type implements the asserted
	// interface is decided by the type checker
	o := x.o
	id, ok := iv.Tag.ConstInt64()
	if !ok || iv.Sym != "" {
		// a value of unknown dynamic type whose static interface type already has every method asked for: the
		// assertion holds exactly when the value is not nil
		if _, isIface := t.X.Type().Underlying().(*types.Interface); isIface && types.Implements(t.X.Type(), t.AssertedType.Underlying().(*types.Interface)) {
			nonNil := o.Not(o.Eq(iv.Tag, o.Int(0)))
			if t.CommaOk {
				return TupleVal{x.iteVal(nonNil, iv, IfaceVal{Tag: o.Int(0), Pay: map[int]Val{}}), nonNil}
			}
			x.oblige("typeassert", "", []string{"C18.nopanic", "C20.nopanic"}, "interface value is not nil", st.Guard, nonNil)
			return iv
		}
		x.fail("type assertion to interface type on a value of unknown dynamic type is outside the verified subset")
	}
	it := t.AssertedType.Underlying().(*types.Interface)
	impl := false
	if id != 0 {
		ct := x.typeByID[int(id)]
		if ct == nil {
			x.fail("type assertion: unknown dynamic type id %d", id)
		}
		impl = types.Implements(ct, it)
	}
	if t.CommaOk {
		if impl {
			return TupleVal{iv, o.True()}
		}
		return TupleVal{IfaceVal{Tag: o.Int(0), Pay: map[int]Val{}}, o.False()}
	}
	x.oblige("typeassert", "", []string{"C18.nopanic", "C20.nopanic"}, "dynamic type implements "+t.AssertedType.String(), st.Guard, o.Bool(impl))
	return iv
}
func (x *Exec) stringToRunes(st *State, s StrVal) Val {
	x.fail("[]rune(string) not modelled yet")
	return nil
}
