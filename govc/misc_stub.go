package main

import "golang.org/x/tools/go/ssa"

func (x *Exec) assertToInterface(st *State, t *ssa.TypeAssert, iv IfaceVal) Val {
	x.fail("type assertion to interface type is outside the verified subset")
	return nil
}
func (x *Exec) stringToRunes(st *State, s StrVal) Val {
	x.fail("[]rune(string) not modelled yet")
	return nil
}
