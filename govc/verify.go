package main

// Verification of one function instance against its own contract.

import (
	"math/big"
	"fmt"
	"go/types"
	"sort"
	"strings"

	"golang.org/x/tools/go/ssa"
)

type FuncResult struct {
	Fn       *ssa.Function
	Name     string
	Contract *FuncContract
	Mode     string
	Obls     []*Obligation
	Err      string // unsupported construct / specification error: all obligations undecided
	Trusted  []string
	Inlined  []string
	Notes    []string
	Exec     *Exec
	Callees  []string // module callees used through their contracts
}

func (w *World) newExec(pk *Pkg, fn *ssa.Function, fc *FuncContract) *Exec {
	mode := Mode{}
	if fc != nil && fc.Mode == "bv" {
		mode.BV = true
	}
	x := &Exec{w: w, pk: pk, fn: fn, fc: fc, topFc: fc, o: &Ops{TermCtx: NewTermCtx(), M: mode},
		typeIDs: map[string]int{}, typeByID: map[int]types.Type{}, counters: map[string]int{}, params: map[string]SVal{},
		tparams: tparamMap(fn), trusted: map[string]bool{}, inlined: map[string]bool{}, globals: map[string]Val{},
		strConst: map[string]StrVal{}, regexUse: map[string]bool{}, callees: map[string]bool{}}
	if fc != nil {
		x.rootOpts = fc.Opts
	}
	return x
}

// VerifyFunction generates the obligations of fn. If the contract has candidate invariants (`loop K candidate E`),
// the candidates that are not inductive are sifted out first (Houdini): the candidates' own obligations are solved,
// every failing one is dropped, and the function is generated again, until all remaining candidates hold. What is
// left is an ordinary set of invariants, so nothing is assumed that was not proved.
func (w *World) VerifyFunction(pk *Pkg, fn *ssa.Function, fc *FuncContract) (res *FuncResult) {
	hasCand := false
	if fc != nil {
		for _, ls := range fc.Loops {
			for _, c := range ls.Invs {
				if c.Candidate {
					hasCand = true
				}
			}
		}
	}
	if !hasCand {
		return w.verifyOnce(pk, fn, fc)
	}
	// private copy of the contract's loop specifications (the contract is shared by all instantiations)
	cfc := *fc
	cfc.Loops = map[int]*LoopSpec{}
	for k, ls := range fc.Loops {
		c := *ls
		c.Dropped = map[int]bool{}
		cfc.Loops[k] = &c
	}
	var dropped []string
	for iter := 0; iter < 8; iter++ {
		res = w.verifyOnce(pk, fn, &cfc)
		if res.Err != "" {
			break
		}
		var cands []*Obligation
		for _, ob := range res.Obls {
			if ob.CandIdx > 0 {
				cands = append(cands, ob)
			}
		}
		if len(cands) == 0 {
			break
		}
		SolveAll(cands, 20, 4, false)
		changed := false
		for _, ob := range cands {
			if ob.Result != nil && ob.Result.Status == "unsat" {
				ob.Presolved = true
				continue
			}
			ls := cfc.Loops[ob.CandLoop]
			if !ls.Dropped[ob.CandIdx-1] {
				ls.Dropped[ob.CandIdx-1] = true
				dropped = append(dropped, fmt.Sprintf("loop %d: %s", ob.CandLoop, ls.Invs[ob.CandIdx-1].Text))
				changed = true
			}
		}
		if !changed {
			break
		}
	}
	sort.Strings(dropped)
	for _, d := range dropped {
		res.Notes = append(res.Notes, "candidate invariant not inductive for this code shape, not used: "+d)
	}
	return res
}

func (w *World) verifyOnce(pk *Pkg, fn *ssa.Function, fc *FuncContract) (res *FuncResult) {
	x := w.newExec(pk, fn, fc)
	res = &FuncResult{Fn: fn, Name: InstName(fn), Contract: fc, Mode: x.o.M.String(), Exec: x}
	defer func() {
		if r := recover(); r != nil {
			switch e := r.(type) {
			case execErr:
				res.Err = e.msg
			case mergeErr:
				res.Err = "unsupported: " + e.msg + " at " + x.curPos
			case specErr:
				res.Err = "specification error: " + e.msg
			default:
				panic(r)
			}
		}
		res.Obls = x.obls
		for k := range x.trusted {
			res.Trusted = append(res.Trusted, k)
		}
		for k := range x.inlined {
			res.Inlined = append(res.Inlined, k)
		}
		for k := range x.callees {
			res.Callees = append(res.Callees, k)
		}
		sort.Strings(res.Trusted)
		sort.Strings(res.Inlined)
		sort.Strings(res.Callees)
		res.Notes = x.notes
	}()
	x.verify()
	return res
}

func (x *Exec) verify() {
	o := x.o
	fn, fc := x.fn, x.fc
	if fc.Pure {
		if why := x.w.checkPure(fn, fc.Opts["ignores"]); why != "" {
			x.oblige("pure", "", nil, "function is pure: "+why, o.True(), o.False())
		}
	}
	pos := x.w.Fset.Position(fn.Pos())
	x.curPos = fmt.Sprintf("%s:%d", relPath(x.w.RepoDir, pos.Filename), pos.Line)
	entry := &State{Guard: o.True(), Regs: map[ssa.Value]Val{}, Cells: map[*Object]Val{}, Ghost: map[string]Val{}}
	entry.H = o.Var("H0", o.HeapSort())
	entry.Alloc = o.Var("alloc0", IntSort)
	o.allocVars[entry.Alloc] = true
	x.assume(o.Ge(entry.Alloc, o.Int(1)))
	var paramObjs []*Object
	for _, p := range fn.Params {
		v := x.freshVal("p."+p.Name(), p.Type())
		if sv, ok := v.(SliceVal); ok {
			sv.Cat = []StrVal{{Arr: o.Select(entry.H, sv.Reg), Off: sv.Off, Len: sv.Len}}
			v = sv
		}
		x.constrainParam(entry, v)
		if pv, ok := v.(PtrVal); ok && pv.Obj != nil {
			paramObjs = append(paramObjs, pv.Obj)
			if fn.Signature.Recv() != nil && p == fn.Params[0] {
				// a method is only ever verified for a non-nil receiver
				x.assume(o.Not(pv.Nil))
				x.note("assumed: receiver %s is not nil", p.Name())
			}
		}
		entry.Regs[p] = v
		x.params[p.Name()] = SVal{V: v, T: p.Type()}
	}
	if len(fn.FreeVars) > 0 {
		for _, fv := range fn.FreeVars {
			v := x.freshVal("fv."+fv.Name(), fv.Type())
			if pv, ok := v.(PtrVal); ok {
				x.assume(o.Not(pv.Nil)) // a captured variable: the closure holds a pointer to it
			}
			x.constrainParam(entry, v)
			entry.Regs[fv] = v
			x.params[fv.Name()] = SVal{V: v, T: fv.Type()}
		}
	}
	x.w.addNameAliases(fn, x.params)
	x.initGhost(entry)
	if fc != nil {
		for ord, ls := range fc.Loops {
			if len(ls.Exits) > 0 {
				// ghost flags of `exit` clauses exist on every path from the start (states merge key by key)
				entry.Ghost[fmt.Sprintf("$inloop%d", ord)] = o.False()
				entry.Ghost[fmt.Sprintf("$iter%d.reports", ord)] = o.Int(0)
			}
		}
	}
	x.entry = entry.clone()
	env := x.specEnv(x.entry, x.entry)
	for _, dc := range x.pk.Contracts.Domains {
		x.assume(x.evalClause(env, dc))
		x.note("assumed domain of configuration: %s", dc.Text)
	}
	var reqs []*Term
	for _, c := range fc.Requires {
		t := x.evalClause(env, c)
		reqs = append(reqs, t)
		x.assume(t)
	}
	// vacuity guard: the precondition (with typing facts) must be satisfiable
	if len(fc.Requires) > 0 {
		ob := x.oblige("cover", "requires", nil, "precondition is satisfiable", o.True(), o.Not(o.And(reqs...)))
		ob.Cover = true
		ob.NAssume = len(x.assumes) - len(reqs)
	}
	x.runBody(fn, entry)
	names := resultNames(fn)
	res := fn.Signature.Results()
	if len(x.returns) == 0 && len(fc.Ensures) > 0 {
		x.note("no return is reachable")
	}
	// cover: some return is reachable under the precondition
	{
		var gs []*Term
		for _, r := range x.returns {
			gs = append(gs, r.St.Guard)
		}
		if len(gs) > 0 {
			ob := x.oblige("cover", "return", nil, "some return is reachable", o.True(), o.Not(o.Or(gs...)))
			ob.Cover = true
		}
	}
	{
		ords := make([]int, 0, len(x.stepOutcomes))
		for k := range x.stepOutcomes {
			ords = append(ords, k)
		}
		sort.Ints(ords)
		for _, k := range ords {
			var rep, silent []*Term
			for _, gv := range x.stepOutcomes[k] {
				rep = append(rep, o.And(gv[0], gv[1]))
				silent = append(silent, o.And(gv[0], o.Not(gv[1])))
			}
			ob := x.oblige("cover", fmt.Sprintf("step%d.reports", k), nil, "some iteration of the loop reports a failure", o.True(), o.Not(o.Or(rep...)))
			ob.Cover = true
			ob = x.oblige("cover", fmt.Sprintf("step%d.silent", k), nil, "some iteration of the loop reports nothing", o.True(), o.Not(o.Or(silent...)))
			ob.Cover = true
		}
	}
	var antecedents map[int][]*Term
	variesVals := map[int][][2]*Term{} // clause index -> (guard, value) per return
	for _, r := range x.returns {
		penv := x.specEnv(x.entry, r.St)
		for i := 0; i < res.Len(); i++ {
			for _, n := range names[i] {
				penv.vars[n] = SVal{V: r.Results[i], T: res.At(i).Type()}
			}
		}
		// case-split hints: each ensures obligation is proved once per case and once for "none of the cases"
		cases := []*Term{o.True()}
		if len(fc.Splits) > 0 {
			senv := x.specEnv(x.entry, x.entry)
			var groups []string
			byGroup := map[string][]*Term{}
			for _, sc := range fc.Splits {
				g := sc.Tags[0]
				if _, ok := byGroup[g]; !ok {
					groups = append(groups, g)
				}
				byGroup[g] = append(byGroup[g], x.evalClause(senv, sc))
			}
			for _, g := range groups {
				gc := append([]*Term{}, byGroup[g]...)
				gc = append(gc, o.Not(o.Or(byGroup[g]...)))
				var nc []*Term
				for _, a := range cases {
					for _, b := range gc {
						nc = append(nc, o.And(a, b))
					}
				}
				cases = nc
			}
		}
		for i, c := range fc.Ensures {
			x.curPos = fmt.Sprintf("%s:%d", x.contractFile(), c.Line)
			if imp, ok := c.E.(*EBinary); ok && imp.Op == "==>" && !fc.Lemma {
				// vacuity guard: the antecedent of a conditional clause must be satisfiable at some return
				func() {
					defer func() { recover() }() // an antecedent that cannot be evaluated on its own is skipped
					if antecedents == nil {
						antecedents = map[int][]*Term{}
					}
					antecedents[i] = append(antecedents[i], o.And(r.St.Guard, penv.evalBool(imp.L)))
				}()
			}
			x.catGoal = true
			goal := x.evalClause(penv, c)
			x.catGoal = false
			// a conjunction is proved conjunct by conjunct (smaller queries)
			parts := []*Term{goal}
			if goal.Op == "and" && len(goal.Args) <= 400 {
				parts = goal.Args
			}
			for pi, part := range parts {
				for ci, cs := range cases {
					label := fmt.Sprint(i)
					if len(parts) > 1 {
						label = fmt.Sprintf("%d.part%d", i, pi)
					}
					if len(cases) > 1 {
						label += fmt.Sprintf(".case%d", ci)
					}
					ob := x.oblige("ensures", label, c.Tags, c.Text, o.And(r.St.Guard, cs), part)
					ob.Clause = c
					if len(cases) > 1 {
						ob.Case = cs
					}
				}
			}
		}
		for i, c := range fc.Varies {
			v := penv.eval(c.E)
			t, ok := v.V.(*Term)
			if !ok || !o.M.BV {
				x.fail("varies clause %q: needs an integer expression in `mode bv`", c.Text)
			}
			variesVals[i] = append(variesVals[i], [2]*Term{r.St.Guard, t})
		}
		if fc.PanicsIff != nil {
			x.oblige("panic", "returns", fc.PanicsIff.Tags, "returns normally only if not ("+fc.PanicsIff.Text+")", r.St.Guard,
				o.Not(x.evalClause(x.specEnv(x.entry, x.entry), fc.PanicsIff)))
		}
		x.frameObligations(r.St, paramObjs)
		for k, v := range r.St.Ghost {
			if strings.HasPrefix(k, "held:") {
				x.oblige("lock", strings.TrimPrefix(k, "held:"), []string{"C19.lock"}, "lock state at exit equals lock state at entry", r.St.Guard,
					o.Eq(v.(*Term), x.entry.Ghost[k].(*Term)))
			}
		}
	}
	for i, c := range fc.Varies {
		// every bit under the mask takes both values at some return (reachability queries: expected satisfiable)
		vals := variesVals[i]
		if len(vals) == 0 {
			continue
		}
		w := vals[0][1].Sort.W
		mask := new(big.Int).Sub(new(big.Int).Lsh(big.NewInt(1), uint(w)), big.NewInt(1))
		if c.Mask != "" {
			m, ok := new(big.Int).SetString(strings.TrimPrefix(strings.ToLower(c.Mask), "0x"), 16)
			if !ok || !strings.HasPrefix(strings.ToLower(c.Mask), "0x") {
				x.fail("varies clause %q: mask must be a hexadecimal constant", c.Text)
			}
			mask = m
		}
		for k := 0; k < w; k++ {
			if mask.Bit(k) == 0 {
				continue
			}
			for bit := int64(0); bit <= 1; bit++ {
				var alts []*Term
				for _, gv := range vals {
					alts = append(alts, o.And(gv[0], o.Eq(o.Extract(k, k, gv[1]), o.BVi(bit, 1))))
				}
				ob := x.oblige("varies", fmt.Sprintf("%d.bit%d=%d", i, k, bit), c.Tags, fmt.Sprintf("bit %d of %s takes the value %d for some outcome of the calls it depends on", k, c.Text, bit), o.True(), o.Not(o.Or(alts...)))
				ob.Cover = true
				ob.CoverTags = c.Tags
			}
		}
	}
	for i, c := range fc.Ensures {
		if as := antecedents[i]; len(as) > 0 {
			ob := x.oblige("cover", fmt.Sprintf("antecedent(%d)", i), nil, "the antecedent of the clause is satisfiable: "+c.Text, o.True(), o.Not(o.Or(as...)))
			ob.Cover = true
			ob.CoverTags = c.Tags
		}
	}
}

func (x *Exec) constrainParam(entry *State, v Val) {
	o := x.o
	switch t := v.(type) {
	case SliceVal:
		x.assume(o.Lt(t.Reg, entry.Alloc))
		o.oldRegs[t.Reg] = true
	case StructVal:
		for _, f := range t.F {
			x.constrainParam(entry, f)
		}
	case PtrVal:
		if t.Obj != nil && t.Obj.Init != nil {
			x.constrainParam(entry, t.Obj.Init)
		}
	}
}

// frameObligations: memory not named in `assigns` is unchanged at this return.
func (x *Exec) frameObligations(st *State, paramObjs []*Object) {
	o := x.o
	fc := x.fc
	env := x.specEnv(x.entry, x.entry)
	assignedObj := map[*Object]bool{}
	type rng struct {
		reg, lo, hi *Term
	}
	var ranges []rng
	anyBytes := false // `assigns heap`: all byte memory may change
	for _, a := range fc.Assigns {
		ex, err := ParseSpecExpr(a)
		if err != nil {
			x.fail("bad assigns target %q: %v", a, err)
		}
		func() {
			defer func() {
				if r := recover(); r != nil {
					if se, ok := r.(specErr); ok {
						x.fail("assigns target %q: %s", a, se.msg)
					}
					panic(r)
				}
			}()
			if call, ok := ex.(*ECall); ok {
				if id, ok := call.Fun.(*EIdent); ok && id.Name == "decoder" {
					return // ghost state: no memory frame to check
				}
			}
			if id, ok := ex.(*EIdent); ok && id.Name == "reports" {
				return // ghost state
			}
			if id, ok := ex.(*EIdent); ok && id.Name == "heap" {
				anyBytes = true
				return
			}
			switch t := ex.(type) {
			case *EUnary:
				v := env.eval(t.X)
				if p, ok := v.V.(PtrVal); ok && p.Obj != nil {
					assignedObj[p.Obj] = true
					return
				}
				x.fail("assigns %s: not a pointer parameter", a)
			case *ESlice:
				bv := env.eval(t.X)
				sl, ok := bv.V.(SliceVal)
				if !ok {
					x.fail("assigns %s: not a byte slice", a)
				}
				lo, hi := o.Idx(0), sl.Cap
				if t.Lo != nil {
					lo = env.asInt(env.eval(t.Lo), tyInt)
				}
				if t.Hi != nil {
					hi = env.asInt(env.eval(t.Hi), tyInt)
				}
				ranges = append(ranges, rng{sl.Reg, o.IdxAdd(sl.Off, lo), o.IdxAdd(sl.Off, hi)})
			case *EIdent:
				bv := env.eval(t)
				sl, ok := bv.V.(SliceVal)
				if !ok {
					x.fail("assigns %s: not a byte slice", a)
				}
				ranges = append(ranges, rng{sl.Reg, sl.Off, o.IdxAdd(sl.Off, sl.Len)})
			default:
				x.fail("unsupported assigns target %q", a)
			}
		}()
	}
	tags := []string{"C17.frame"}
	if st.H != x.entry.H && !x.catDirty && !x.untrackedAppend && x.inlineStoresOK() {
		// Append discipline: the function wrote byte memory only through append/Buffer writes whose destinations are
		// append-chains rooted at a parameter (same offset, growing length), at nil or at fresh memory. Such a write
		// lands either in a fresh region or in [off+len, off+cap) of a parameter's region; so the frame holds as soon
		// as every byte-slice parameter p is covered by `assigns p[len(p):]`.
		covered := true
		for _, p := range x.fn.Params {
			if !isByteSlice(p.Type()) {
				continue
			}
			sv := x.params[p.Name()].V.(SliceVal)
			ok := false
			for _, g := range ranges {
				if g.reg == sv.Reg && g.lo == o.IdxAdd(sv.Off, sv.Len) && g.hi == o.IdxAdd(sv.Off, sv.Cap) {
					ok = true
				}
			}
			if !ok {
				covered = false
			}
		}
		if covered {
			ob := x.oblige("frame", "heap", tags, "bytes outside `assigns` are unchanged (append discipline)", st.Guard, o.True())
			ob.Trivial = true
			ob.Discipline = true
			goto objects
		}
	}
	if anyBytes {
		goto objects
	}
	if st.H != x.entry.H {
		r := o.Var("frame.r", IntSort)
		i := o.Var("frame.i", o.IdxSort())
		var asg []*Term
		for _, g := range ranges {
			asg = append(asg, o.And(o.Eq(r, g.reg), o.IdxLe(g.lo, i), o.IdxLt(i, g.hi)))
		}
		hyp := o.And(o.Le(o.Int(0), r), o.Lt(r, x.entry.Alloc), o.Not(o.Or(asg...)))
		goal := o.Eq(o.Select(o.Select(st.H, r), i), o.Select(o.Select(x.entry.H, r), i))
		x.oblige("frame", "heap", tags, "bytes outside `assigns` are unchanged", st.Guard, o.Implies(hyp, goal))
	}
objects:
	for _, obj := range paramObjs {
		if assignedObj[obj] {
			continue
		}
		cur, ok := st.Cells[obj]
		if !ok || sameVal(cur, obj.Init) {
			continue
		}
		x.oblige("frame", "obj", tags, "object outside `assigns` is unchanged", st.Guard, x.valEq(st, cur, obj.Init))
	}
}

func (x *Exec) initGhost(st *State) {
	for _, pk := range x.w.Pkgs {
		for _, mu := range pk.Contracts.Guarded {
			st.Ghost["held:"+pk.Name+"."+mu] = x.o.False()
		}
	}
}

// ---- world-level driver ---------------------------------------------------------------------------------------

// ContractedFuncs lists (package, function instance, contract) triples in a stable order.
type Target struct {
	Pk *Pkg
	Fn *ssa.Function
	Fc *FuncContract
}

func (w *World) Targets() []Target {
	var ts []Target
	var pnames []string
	for n := range w.Pkgs {
		pnames = append(pnames, n)
	}
	sort.Strings(pnames)
	for _, pn := range pnames {
		pk := w.Pkgs[pn]
		for _, key := range pk.Contracts.FuncOrder {
			fc := pk.Contracts.Funcs[key]
			if fc.Inline || fc.Trusted {
				continue
			}
			fns := pk.Funcs[key]
			for _, fn := range fns {
				ts = append(ts, Target{pk, fn, fc})
			}
		}
	}
	return ts
}

// contract sanity: every contract must name an existing function
func (w *World) CheckContractsResolve() []string {
	var errs []string
	for _, pk := range w.Pkgs {
		for _, key := range pk.Contracts.FuncOrder {
			if strings.HasPrefix(key, "var:") {
				continue // an assumed contract of the function value held in a local variable of that name
			}
			if strings.HasPrefix(key, "type:") || strings.HasPrefix(key, "method:") {
				// an assumed contract of a function type / interface method: the named type must exist
				name := strings.TrimPrefix(strings.TrimPrefix(key, "type:"), "method:")
				if k := strings.Index(name, "."); k >= 0 {
					name = name[:k]
				}
				if pk.P.Types.Scope().Lookup(name) == nil {
					errs = append(errs, fmt.Sprintf("%s: assumed contract %s names no type of package %s", relPath(w.RepoDir, pk.Contracts.File), key, pk.Name))
				}
				continue
			}
			if len(pk.Funcs[key]) == 0 {
				errs = append(errs, fmt.Sprintf("%s: contract for %s.%s names no function (or no instantiation exists)", relPath(w.RepoDir, pk.Contracts.File), pk.Name, key))
			}
		}
	}
	sort.Strings(errs)
	return errs
}

func (w *World) computeUniverses() {
	sent := map[string]bool{}
	etypes := map[string]bool{}
	for _, pk := range w.Pkgs {
		for name, gi := range pk.Inits {
			if gi.Kind == "sentinel" {
				sent[pk.Name+"."+name] = true
			}
		}
	}
	// error types: every named type of the module (and every instantiation seen in the program) implementing error
	for _, t := range w.Prog.RuntimeTypes() {
		w.addErrType(etypes, t)
	}
	for fn := range allFuncs(w) {
		for _, b := range fn.Blocks {
			for _, ins := range b.Instrs {
				if mi, ok := ins.(*ssa.MakeInterface); ok {
					w.addErrType(etypes, mi.X.Type())
				}
				if al, ok := ins.(*ssa.Alloc); ok {
					w.addErrType(etypes, al.Type())
				}
			}
		}
	}
	for k := range sent {
		w.Sentinels = append(w.Sentinels, k)
	}
	for k := range etypes {
		w.ErrTypes = append(w.ErrTypes, k)
	}
	sort.Strings(w.Sentinels)
	sort.Strings(w.ErrTypes)
}

func (w *World) addErrType(set map[string]bool, t types.Type) {
	if !implementsError(t) {
		return
	}
	if _, isIface := t.Underlying().(*types.Interface); isIface {
		return
	}
	base := t
	if p, ok := t.(*types.Pointer); ok {
		base = p.Elem()
	}
	n, ok := base.(*types.Named)
	if !ok || n.Obj().Pkg() == nil || !strings.HasPrefix(n.Obj().Pkg().Path(), modulePath) {
		return
	}
	if tp := n.TypeArgs(); tp != nil {
		for i := 0; i < tp.Len(); i++ {
			if _, isTP := tp.At(i).(*types.TypeParam); isTP {
				return
			}
		}
	} else if n.TypeParams() != nil && n.TypeParams().Len() > 0 {
		return
	}
	set[errTypeKey(t)] = true
}

func allFuncs(w *World) map[*ssa.Function]bool {
	m := map[*ssa.Function]bool{}
	for _, pk := range w.Pkgs {
		for _, fs := range pk.Funcs {
			for _, f := range fs {
				m[f] = true
			}
		}
	}
	return m
}

func (x *Exec) inlineStoresOK() bool { return true }
