package main

// SMT term DAG with hash-consing and light simplification at construction.

import (
	"fmt"
	"math/big"
	"sort"
	"strings"
	"sync"
)

type SortKind int

const (
	SBool SortKind = iota
	SInt
	SBV
	SFP
	SArray
	SRM // rounding mode
)

type Sort struct {
	Kind  SortKind
	W     int // BV width
	E, S  int // FP exponent / significand
	Idx   *Sort
	Elem  *Sort
	cache string
}

var (
	BoolSort = &Sort{Kind: SBool}
	IntSort  = &Sort{Kind: SInt}
	sortTab  = map[string]*Sort{}
	sortMu   sync.Mutex
)

func BVSort(w int) *Sort {
	sortMu.Lock()
	defer sortMu.Unlock()
	k := fmt.Sprintf("bv%d", w)
	if s, ok := sortTab[k]; ok {
		return s
	}
	s := &Sort{Kind: SBV, W: w}
	sortTab[k] = s
	return s
}

func FPSort(e, s int) *Sort {
	sortMu.Lock()
	defer sortMu.Unlock()
	k := fmt.Sprintf("fp%d_%d", e, s)
	if so, ok := sortTab[k]; ok {
		return so
	}
	so := &Sort{Kind: SFP, E: e, S: s}
	sortTab[k] = so
	return so
}

func ArraySort(i, e *Sort) *Sort {
	k := "arr " + i.String() + " " + e.String()
	sortMu.Lock()
	defer sortMu.Unlock()
	if s, ok := sortTab[k]; ok {
		return s
	}
	s := &Sort{Kind: SArray, Idx: i, Elem: e}
	sortTab[k] = s
	return s
}

func (s *Sort) String() string {
	switch s.Kind {
	case SBool:
		return "Bool"
	case SInt:
		return "Int"
	case SBV:
		return fmt.Sprintf("(_ BitVec %d)", s.W)
	case SFP:
		return fmt.Sprintf("(_ FloatingPoint %d %d)", s.E, s.S)
	case SArray:
		return fmt.Sprintf("(Array %s %s)", s.Idx, s.Elem)
	case SRM:
		return "RoundingMode"
	}
	return "?" 
}

type Term struct {
	Op    string
	Args  []*Term
	Sort  *Sort
	IVal  *big.Int // for "const" of Int/BV
	Name  string   // for "var" / uf application name / bound var
	Bound []*Term  // for quantifiers: bound variables (Op=="var")
	id    int
}

type uFunc struct {
	Name string
	Args []*Sort
	Res  *Sort
}

// TermCtx owns the hash-cons table and declarations of one VC universe.
type TermCtx struct {
	tab    map[string]*Term
	nextID int
	vars   []*Term           // declared constants in order
	varSet map[string]*Term  // by name
	ufs    map[string]*uFunc // uninterpreted functions
	ufOrd  []string
	recs   map[string]*recDef // recursive definitions of some ufs (printed as define-fun-rec)
	fresh  int
	bmemo  map[*Term]ival
	ranges map[*Term]ival
	// memory regions: oldRegs are region ids known to lie below the allocation base at entry; allocVars are the
	// allocation bases (entry and later), all at or above the entry base; base+k (k >= 0) is a region allocated later
	oldRegs   map[*Term]bool
	allocVars map[*Term]bool
}

// recDef: the defining equation of a recursive specification function, f(params) = body.
type recDef struct {
	Params []*Term // bound variables
	Body   *Term
}

// DefineRec attaches a recursive definition to the uninterpreted function `name` (declared by a UF call).
func (c *TermCtx) DefineRec(name string, params []*Term, body *Term) {
	if c.recs == nil {
		c.recs = map[string]*recDef{}
	}
	c.recs[sanitize(name)] = &recDef{Params: params, Body: body}
}

func NewTermCtx() *TermCtx {
	return &TermCtx{oldRegs: map[*Term]bool{}, allocVars: map[*Term]bool{},tab: map[string]*Term{}, varSet: map[string]*Term{}, ufs: map[string]*uFunc{}}
}

func (c *TermCtx) mk(op string, sort *Sort, name string, iv *big.Int, args ...*Term) *Term {
	var sb strings.Builder
	sb.WriteString(op)
	sb.WriteByte('|')
	sb.WriteString(sort.String())
	sb.WriteByte('|')
	sb.WriteString(name)
	if iv != nil {
		sb.WriteByte('#')
		sb.WriteString(iv.String())
	}
	for _, a := range args {
		fmt.Fprintf(&sb, ",%d", a.id)
	}
	k := sb.String()
	if t, ok := c.tab[k]; ok {
		return t
	}
	c.nextID++
	t := &Term{Op: op, Args: args, Sort: sort, Name: name, IVal: iv, id: c.nextID}
	c.tab[k] = t
	return t
}

// ---- leaves -----------------------------------------------------------------

func (c *TermCtx) True() *Term  { return c.mk("true", BoolSort, "", nil) }
func (c *TermCtx) False() *Term { return c.mk("false", BoolSort, "", nil) }
func (c *TermCtx) Bool(b bool) *Term {
	if b {
		return c.True()
	}
	return c.False()
}

func (c *TermCtx) Int(v int64) *Term { return c.IntBig(big.NewInt(v)) }
func (c *TermCtx) IntBig(v *big.Int) *Term {
	return c.mk("const", IntSort, "", new(big.Int).Set(v))
}

func (c *TermCtx) BV(v *big.Int, w int) *Term {
	m := new(big.Int).Lsh(big.NewInt(1), uint(w))
	x := new(big.Int).Mod(v, m)
	return c.mk("const", BVSort(w), "", x)
}
func (c *TermCtx) BVi(v int64, w int) *Term { return c.BV(big.NewInt(v), w) }

func sanitize(name string) string {
	var sb strings.Builder
	for _, r := range name {
		switch {
		case r >= 'a' && r <= 'z', r >= 'A' && r <= 'Z', r >= '0' && r <= '9', r == '_', r == '.', r == '$', r == '!', r == '#', r == '@', r == '-', r == '~':
			sb.WriteRune(r)
		default:
			sb.WriteByte('_')
		}
	}
	return sb.String()
}

// Var declares (or returns) a constant symbol.
func (c *TermCtx) Var(name string, s *Sort) *Term {
	name = sanitize(name)
	if t, ok := c.varSet[name]; ok {
		if t.Sort != s {
			panic(fmt.Sprintf("var %s redeclared with sort %s (was %s)", name, s, t.Sort))
		}
		return t
	}
	t := c.mk("var", s, name, nil)
	c.varSet[name] = t
	c.vars = append(c.vars, t)
	return t
}

func (c *TermCtx) Fresh(prefix string, s *Sort) *Term {
	for {
		c.fresh++
		n := fmt.Sprintf("%s!%d", sanitize(prefix), c.fresh)
		if _, ok := c.varSet[n]; !ok {
			return c.Var(n, s)
		}
	}
}

// BoundVar makes a variable for use under a quantifier (not declared globally).
func (c *TermCtx) BoundVar(name string, s *Sort) *Term {
	c.fresh++
	return c.mk("bvar", s, fmt.Sprintf("%s?%d", sanitize(name), c.fresh), nil)
}

func (c *TermCtx) UF(name string, res *Sort, args ...*Term) *Term {
	name = sanitize(name)
	if f, ok := c.ufs[name]; !ok {
		as := make([]*Sort, len(args))
		for i, a := range args {
			as[i] = a.Sort
		}
		c.ufs[name] = &uFunc{Name: name, Args: as, Res: res}
		c.ufOrd = append(c.ufOrd, name)
	} else {
		if len(f.Args) != len(args) {
			panic("uf arity mismatch " + name)
		}
		for i, a := range args {
			if f.Args[i] != a.Sort {
				panic(fmt.Sprintf("uf %s arg %d sort %s want %s", name, i, a.Sort, f.Args[i]))
			}
		}
	}
	if len(args) == 0 {
		return c.Var(name, res)
	}
	return c.mk("uf", res, name, nil, args...)
}

// ---- predicates on terms ------------------------------------------------------

func (t *Term) IsConst() bool { return t.Op == "const" }
func (t *Term) IsTrue() bool  { return t.Op == "true" }
func (t *Term) IsFalse() bool { return t.Op == "false" }
func (t *Term) ConstInt64() (int64, bool) {
	if t.Op == "const" && t.IVal.IsInt64() {
		return t.IVal.Int64(), true
	}
	return 0, false
}

// signed value of a BV constant
func bvSigned(v *big.Int, w int) *big.Int {
	half := new(big.Int).Lsh(big.NewInt(1), uint(w-1))
	if v.Cmp(half) >= 0 {
		return new(big.Int).Sub(v, new(big.Int).Lsh(big.NewInt(1), uint(w)))
	}
	return new(big.Int).Set(v)
}

// ---- boolean ------------------------------------------------------------------

func (c *TermCtx) Not(a *Term) *Term {
	switch a.Op {
	case "true":
		return c.False()
	case "false":
		return c.True()
	case "not":
		return a.Args[0]
	}
	return c.mk("not", BoolSort, "", nil, a)
}

func (c *TermCtx) And(as ...*Term) *Term {
	var out []*Term
	seen := map[int]bool{}
	for _, a := range as {
		if a.IsFalse() {
			return a
		}
		if a.IsTrue() {
			continue
		}
		if a.Op == "and" {
			for _, b := range a.Args {
				if !seen[b.id] {
					seen[b.id] = true
					out = append(out, b)
				}
			}
			continue
		}
		if !seen[a.id] {
			seen[a.id] = true
			out = append(out, a)
		}
	}
	for _, a := range out {
		if a.Op == "not" && seen[a.Args[0].id] {
			return c.False()
		}
	}
	switch len(out) {
	case 0:
		return c.True()
	case 1:
		return out[0]
	}
	return c.mk("and", BoolSort, "", nil, out...)
}

func (c *TermCtx) Or(as ...*Term) *Term {
	var out []*Term
	seen := map[int]bool{}
	for _, a := range as {
		if a.IsTrue() {
			return a
		}
		if a.IsFalse() {
			continue
		}
		if a.Op == "or" {
			for _, b := range a.Args {
				if !seen[b.id] {
					seen[b.id] = true
					out = append(out, b)
				}
			}
			continue
		}
		if !seen[a.id] {
			seen[a.id] = true
			out = append(out, a)
		}
	}
	for _, a := range out {
		if a.Op == "not" && seen[a.Args[0].id] {
			return c.True()
		}
	}
	switch len(out) {
	case 0:
		return c.False()
	case 1:
		return out[0]
	}
	return c.mk("or", BoolSort, "", nil, out...)
}

func (c *TermCtx) Implies(a, b *Term) *Term {
	if a.IsTrue() {
		return b
	}
	if a.IsFalse() || b.IsTrue() {
		return c.True()
	}
	if b.IsFalse() {
		return c.Not(a)
	}
	if a == b {
		return c.True()
	}
	return c.mk("=>", BoolSort, "", nil, a, b)
}

func (c *TermCtx) Iff(a, b *Term) *Term { return c.Eq(a, b) }

func (c *TermCtx) Ite(cond, a, b *Term) *Term {
	if cond.IsTrue() {
		return a
	}
	if cond.IsFalse() {
		return b
	}
	if a == b {
		return a
	}
	if a.Sort != b.Sort {
		panic(fmt.Sprintf("ite sort mismatch %s vs %s", a.Sort, b.Sort))
	}
	if a.Sort == BoolSort {
		if a.IsTrue() && b.IsFalse() {
			return cond
		}
		if a.IsFalse() && b.IsTrue() {
			return c.Not(cond)
		}
		if a.IsTrue() {
			return c.Or(cond, b)
		}
		if a.IsFalse() {
			return c.And(c.Not(cond), b)
		}
		if b.IsTrue() {
			return c.Or(c.Not(cond), a)
		}
		if b.IsFalse() {
			return c.And(cond, a)
		}
	}
	if cond.Op == "not" {
		return c.Ite(cond.Args[0], b, a)
	}
	// ite(c1, x, ite(c2, x, z)) = ite(c1 or c2, x, z)
	if b.Op == "ite" && b.Args[1] == a && b.Args[0] != cond {
		return c.Ite(c.Or(cond, b.Args[0]), a, b.Args[2])
	}
	// ite(c1, ite(c2, x, y), y) = ite(c1 and c2, x, y)
	if a.Op == "ite" && a.Args[2] == b && a.Args[0] != cond {
		return c.Ite(c.And(cond, a.Args[0]), a.Args[1], b)
	}
	// ite(c, x, ite(c, y, z)) = ite(c, x, z)
	if b.Op == "ite" && b.Args[0] == cond {
		return c.Ite(cond, a, b.Args[2])
	}
	if a.Op == "ite" && a.Args[0] == cond {
		return c.Ite(cond, a.Args[1], b)
	}
	return c.mk("ite", a.Sort, "", nil, cond, a, b)
}

func (c *TermCtx) Eq(a, b *Term) *Term {
	if a == b {
		return c.True()
	}
	if a.Sort != b.Sort {
		panic(fmt.Sprintf("eq sort mismatch %s vs %s (%s / %s)", a.Sort, b.Sort, a.Op, b.Op))
	}
	if a.Op == "const" && b.Op == "const" {
		return c.Bool(a.IVal.Cmp(b.IVal) == 0)
	}
	if a.Sort == BoolSort {
		if a.IsTrue() {
			return b
		}
		if b.IsTrue() {
			return a
		}
		if a.IsFalse() {
			return c.Not(b)
		}
		if b.IsFalse() {
			return c.Not(a)
		}
	}
	// eq(ite(c, k1, k2), k) with constants: push inside
	if b.Op == "const" && a.Op == "ite" && a.Args[1].Op == "const" && a.Args[2].Op == "const" {
		return c.Ite(a.Args[0], c.Eq(a.Args[1], b), c.Eq(a.Args[2], b))
	}
	if a.Op == "const" && b.Op == "ite" && b.Args[1].Op == "const" && b.Args[2].Op == "const" {
		return c.Ite(b.Args[0], c.Eq(a, b.Args[1]), c.Eq(a, b.Args[2]))
	}
	// a constant outside the other side's interval
	if a.Sort.Kind == SInt {
		if b.Op == "const" {
			if iv := c.Bounds(a); (iv.lo != nil && b.IVal.Cmp(iv.lo) < 0) || (iv.hi != nil && b.IVal.Cmp(iv.hi) > 0) {
				return c.False()
			}
		} else if a.Op == "const" {
			if iv := c.Bounds(b); (iv.lo != nil && a.IVal.Cmp(iv.lo) < 0) || (iv.hi != nil && a.IVal.Cmp(iv.hi) > 0) {
				return c.False()
			}
		}
	}
	if a.id > b.id {
		a, b = b, a
	}
	return c.mk("=", BoolSort, "", nil, a, b)
}

func (c *TermCtx) Neq(a, b *Term) *Term { return c.Not(c.Eq(a, b)) }

// ---- Int arithmetic ---------------------------------------------------------------

func (c *TermCtx) Add(a, b *Term) *Term {
	if a.Sort.Kind == SBV {
		return c.bvBin("bvadd", a, b)
	}
	if a.IsConst() && b.IsConst() {
		return c.IntBig(new(big.Int).Add(a.IVal, b.IVal))
	}
	if a.IsConst() && a.IVal.Sign() == 0 {
		return b
	}
	if b.IsConst() && b.IVal.Sign() == 0 {
		return a
	}
	// (x + k1) + k2
	if b.IsConst() && a.Op == "+" && len(a.Args) == 2 && a.Args[1].IsConst() {
		return c.Add(a.Args[0], c.IntBig(new(big.Int).Add(a.Args[1].IVal, b.IVal)))
	}
	if a.IsConst() {
		a, b = b, a
	}
	return c.mk("+", IntSort, "", nil, a, b)
}

func (c *TermCtx) Sub(a, b *Term) *Term {
	if a.Sort.Kind == SBV {
		return c.bvBin("bvsub", a, b)
	}
	if b.IsConst() {
		return c.Add(a, c.IntBig(new(big.Int).Neg(b.IVal)))
	}
	if a == b {
		return c.Int(0)
	}
	// (x + k) - x
	if a.Op == "+" && len(a.Args) == 2 && a.Args[0] == b {
		return a.Args[1]
	}
	if a.Op == "+" && len(a.Args) == 2 && a.Args[1].IsConst() && b.Op == "+" && len(b.Args) == 2 && b.Args[1].IsConst() && a.Args[0] == b.Args[0] {
		return c.IntBig(new(big.Int).Sub(a.Args[1].IVal, b.Args[1].IVal))
	}
	return c.mk("-", IntSort, "", nil, a, b)
}

func (c *TermCtx) Neg(a *Term) *Term {
	if a.Sort.Kind == SBV {
		if a.IsConst() {
			return c.BV(new(big.Int).Neg(a.IVal), a.Sort.W)
		}
		return c.mk("bvneg", a.Sort, "", nil, a)
	}
	if a.IsConst() {
		return c.IntBig(new(big.Int).Neg(a.IVal))
	}
	return c.Sub(c.Int(0), a)
}

func (c *TermCtx) Mul(a, b *Term) *Term {
	if a.Sort.Kind == SBV {
		return c.bvBin("bvmul", a, b)
	}
	if a.IsConst() && b.IsConst() {
		return c.IntBig(new(big.Int).Mul(a.IVal, b.IVal))
	}
	if b.IsConst() {
		a, b = b, a
	}
	if a.IsConst() {
		if a.IVal.Sign() == 0 {
			return a
		}
		if a.IVal.Cmp(big.NewInt(1)) == 0 {
			return b
		}
		// distribute a constant into an ite of constants / ite in general to keep LIA linear
		if b.Op == "ite" {
			return c.Ite(b.Args[0], c.Mul(a, b.Args[1]), c.Mul(a, b.Args[2]))
		}
	}
	// x * ite(c, k1, k2) -> ite(c, x*k1, x*k2)   (keeps arithmetic linear)
	if b.Op == "ite" && iteOfConsts(b) {
		return c.Ite(b.Args[0], c.Mul(a, b.Args[1]), c.Mul(a, b.Args[2]))
	}
	if a.Op == "ite" && iteOfConsts(a) {
		return c.Ite(a.Args[0], c.Mul(b, a.Args[1]), c.Mul(b, a.Args[2]))
	}
	return c.mk("*", IntSort, "", nil, a, b)
}

func iteOfConsts(t *Term) bool {
	if t.Op == "const" {
		return true
	}
	if t.Op == "ite" {
		return iteOfConsts(t.Args[1]) && iteOfConsts(t.Args[2])
	}
	return false
}

func floorDivMod(a, b *big.Int) (*big.Int, *big.Int) {
	// SMT-LIB div/mod: mod is always non-negative (Euclidean)
	q, m := new(big.Int).DivMod(a, b, new(big.Int))
	return q, m
}

func (c *TermCtx) Div(a, b *Term) *Term { // SMT-LIB Euclidean div
	if a.IsConst() && b.IsConst() && b.IVal.Sign() != 0 {
		q, _ := floorDivMod(a.IVal, b.IVal)
		return c.IntBig(q)
	}
	if b.IsConst() && b.IVal.Cmp(big.NewInt(1)) == 0 {
		return a
	}
	// floor(floor(x/a)/b) = floor(x/(a*b)) for positive constants
	if b.IsConst() && b.IVal.Sign() > 0 && a.Op == "div" && a.Args[1].IsConst() && a.Args[1].IVal.Sign() > 0 {
		return c.Div(a.Args[0], c.IntBig(new(big.Int).Mul(a.Args[1].IVal, b.IVal)))
	}
	// x in [0, b) => x div b = 0
	if b.IsConst() && b.IVal.Sign() > 0 {
		if iv := c.Bounds(a); iv.lo != nil && iv.hi != nil && iv.lo.Sign() >= 0 && iv.hi.Cmp(b.IVal) < 0 {
			return c.Int(0)
		}
	}
	return c.mk("div", IntSort, "", nil, a, b)
}

func (c *TermCtx) Mod(a, b *Term) *Term { // SMT-LIB Euclidean mod
	if a.IsConst() && b.IsConst() && b.IVal.Sign() != 0 {
		_, m := floorDivMod(a.IVal, b.IVal)
		return c.IntBig(m)
	}
	if b.IsConst() && b.IVal.Cmp(big.NewInt(1)) == 0 {
		return c.Int(0)
	}
	if b.IsConst() && b.IVal.Sign() > 0 {
		k := b.IVal
		// (x mod m) mod k = x mod k when k | m
		if a.Op == "mod" && a.Args[1].IsConst() && a.Args[1].IVal.Sign() > 0 {
			if new(big.Int).Rem(a.Args[1].IVal, k).Sign() == 0 {
				return c.Mod(a.Args[0], b)
			}
		}
		// ((x mod m) div d) mod k = (x div d) mod k when d*k | m
		if a.Op == "div" && a.Args[1].IsConst() && a.Args[1].IVal.Sign() > 0 && a.Args[0].Op == "mod" && a.Args[0].Args[1].IsConst() {
			d, m := a.Args[1].IVal, a.Args[0].Args[1].IVal
			if m.Sign() > 0 && new(big.Int).Rem(m, new(big.Int).Mul(d, k)).Sign() == 0 {
				return c.Mod(c.Div(a.Args[0].Args[0], a.Args[1]), b)
			}
		}
		// x in [0, k) => x mod k = x
		if iv := c.Bounds(a); iv.lo != nil && iv.hi != nil && iv.lo.Sign() >= 0 && iv.hi.Cmp(k) < 0 {
			return a
		}
		// ((x mod m) + y) mod k = (x + y) mod k when k | m   (a sum of wrapped terms is wrapped once)
		if a.Op == "+" {
			changed := false
			args := make([]*Term, len(a.Args))
			for i, t := range a.Args {
				args[i] = t
				if t.Op == "mod" && t.Args[1].IsConst() && t.Args[1].IVal.Sign() > 0 && new(big.Int).Rem(t.Args[1].IVal, k).Sign() == 0 {
					args[i] = t.Args[0]
					changed = true
				}
			}
			if changed {
				sum := args[0]
				for _, t := range args[1:] {
					sum = c.Add(sum, t)
				}
				return c.Mod(sum, b)
			}
		}
	}
	return c.mk("mod", IntSort, "", nil, a, b)
}

func (c *TermCtx) cmpInt(op string, a, b *Term) *Term {
	if a.IsConst() && b.IsConst() {
		r := a.IVal.Cmp(b.IVal)
		switch op {
		case "<":
			return c.Bool(r < 0)
		case "<=":
			return c.Bool(r <= 0)
		case ">":
			return c.Bool(r > 0)
		case ">=":
			return c.Bool(r >= 0)
		}
	}
	if a == b {
		return c.Bool(op == "<=" || op == ">=")
	}
	// (x + k1) op (x + k2), x op x+k
	ba, ka := splitAddConst(a)
	bb, kb := splitAddConst(b)
	if ba == bb && ba != nil {
		return c.cmpInt(op, c.IntBig(ka), c.IntBig(kb))
	}
	// decide by intervals
	ia, ib := c.Bounds(a), c.Bounds(b)
	lt := func(x, y *big.Int) bool { return x != nil && y != nil && x.Cmp(y) < 0 }
	le := func(x, y *big.Int) bool { return x != nil && y != nil && x.Cmp(y) <= 0 }
	switch op {
	case "<":
		if lt(ia.hi, ib.lo) {
			return c.True()
		}
		if le(ib.hi, ia.lo) {
			return c.False()
		}
	case "<=":
		if le(ia.hi, ib.lo) {
			return c.True()
		}
		if lt(ib.hi, ia.lo) {
			return c.False()
		}
	case ">":
		if lt(ib.hi, ia.lo) {
			return c.True()
		}
		if le(ia.hi, ib.lo) {
			return c.False()
		}
	case ">=":
		if le(ib.hi, ia.lo) {
			return c.True()
		}
		if lt(ia.hi, ib.lo) {
			return c.False()
		}
	}
	return c.mk(op, BoolSort, "", nil, a, b)
}

func splitAddConst(t *Term) (*Term, *big.Int) {
	if t.Op == "+" && len(t.Args) == 2 && t.Args[1].IsConst() {
		return t.Args[0], t.Args[1].IVal
	}
	if t.Op == "const" {
		return nil, t.IVal
	}
	return t, big.NewInt(0)
}

// All integer comparisons are canonicalised to the single atom form (<= a b), so that a case hypothesis
// and the same comparison written the other way round share their atom.
func (c *TermCtx) Lt(a, b *Term) *Term { return c.Not(c.cmpInt("<=", b, a)) }
func (c *TermCtx) Le(a, b *Term) *Term { return c.cmpInt("<=", a, b) }
func (c *TermCtx) Gt(a, b *Term) *Term { return c.Not(c.cmpInt("<=", a, b)) }
func (c *TermCtx) Ge(a, b *Term) *Term { return c.cmpInt("<=", b, a) }

// ---- bit vectors --------------------------------------------------------------------

func (c *TermCtx) bvBin(op string, a, b *Term) *Term {
	if a.Sort != b.Sort {
		panic(fmt.Sprintf("%s sort mismatch %s vs %s", op, a.Sort, b.Sort))
	}
	w := a.Sort.W
	if a.IsConst() && b.IsConst() {
		x, y := a.IVal, b.IVal
		switch op {
		case "bvadd":
			return c.BV(new(big.Int).Add(x, y), w)
		case "bvsub":
			return c.BV(new(big.Int).Sub(x, y), w)
		case "bvmul":
			return c.BV(new(big.Int).Mul(x, y), w)
		case "bvand":
			return c.BV(new(big.Int).And(x, y), w)
		case "bvor":
			return c.BV(new(big.Int).Or(x, y), w)
		case "bvxor":
			return c.BV(new(big.Int).Xor(x, y), w)
		case "bvshl":
			if y.Cmp(big.NewInt(int64(w))) >= 0 {
				return c.BVi(0, w)
			}
			return c.BV(new(big.Int).Lsh(x, uint(y.Int64())), w)
		case "bvlshr":
			if y.Cmp(big.NewInt(int64(w))) >= 0 {
				return c.BVi(0, w)
			}
			return c.BV(new(big.Int).Rsh(x, uint(y.Int64())), w)
		case "bvashr":
			sx := bvSigned(x, w)
			sh := uint(w)
			if y.Cmp(big.NewInt(int64(w))) < 0 {
				sh = uint(y.Int64())
			}
			return c.BV(new(big.Int).Rsh(sx, sh), w)
		case "bvudiv":
			if y.Sign() != 0 {
				return c.BV(new(big.Int).Quo(x, y), w)
			}
		case "bvurem":
			if y.Sign() != 0 {
				return c.BV(new(big.Int).Rem(x, y), w)
			}
		case "bvsdiv":
			if y.Sign() != 0 {
				return c.BV(new(big.Int).Quo(bvSigned(x, w), bvSigned(y, w)), w)
			}
		case "bvsrem":
			if y.Sign() != 0 {
				return c.BV(new(big.Int).Rem(bvSigned(x, w), bvSigned(y, w)), w)
			}
		}
	}
	isZero := func(t *Term) bool { return t.IsConst() && t.IVal.Sign() == 0 }
	switch op {
	case "bvadd", "bvor", "bvxor":
		if isZero(a) {
			return b
		}
		if isZero(b) {
			return a
		}
	case "bvsub", "bvshl", "bvlshr", "bvashr":
		if isZero(b) {
			return a
		}
	case "bvand":
		if isZero(a) || isZero(b) {
			return c.BVi(0, w)
		}
	case "bvmul":
		if isZero(a) || isZero(b) {
			return c.BVi(0, w)
		}
	}
	return c.mk(op, a.Sort, "", nil, a, b)
}

func (c *TermCtx) BVOp(op string, a, b *Term) *Term { return c.bvBin(op, a, b) }

func (c *TermCtx) BVNot(a *Term) *Term {
	if a.IsConst() {
		return c.BV(new(big.Int).Not(a.IVal), a.Sort.W)
	}
	return c.mk("bvnot", a.Sort, "", nil, a)
}

func (c *TermCtx) BVCmp(op string, a, b *Term) *Term {
	if a.Sort != b.Sort {
		panic(fmt.Sprintf("%s sort mismatch %s vs %s", op, a.Sort, b.Sort))
	}
	if a.IsConst() && b.IsConst() {
		w := a.Sort.W
		var r int
		if op[2] == 's' {
			r = bvSigned(a.IVal, w).Cmp(bvSigned(b.IVal, w))
		} else {
			r = a.IVal.Cmp(b.IVal)
		}
		switch op[3:] {
		case "lt":
			return c.Bool(r < 0)
		case "le":
			return c.Bool(r <= 0)
		case "gt":
			return c.Bool(r > 0)
		case "ge":
			return c.Bool(r >= 0)
		}
	}
	if a == b {
		return c.Bool(strings.HasSuffix(op, "e"))
	}
	return c.mk(op, BoolSort, "", nil, a, b)
}

func (c *TermCtx) Extract(hi, lo int, a *Term) *Term {
	if a.IsConst() {
		v := new(big.Int).Rsh(a.IVal, uint(lo))
		return c.BV(v, hi-lo+1)
	}
	if lo == 0 && hi == a.Sort.W-1 {
		return a
	}
	return c.mk("extract", BVSort(hi-lo+1), fmt.Sprintf("%d:%d", hi, lo), nil, a)
}

func (c *TermCtx) ZeroExt(n int, a *Term) *Term {
	if n == 0 {
		return a
	}
	if a.IsConst() {
		return c.BV(a.IVal, a.Sort.W+n)
	}
	return c.mk("zero_extend", BVSort(a.Sort.W+n), fmt.Sprint(n), nil, a)
}

func (c *TermCtx) SignExt(n int, a *Term) *Term {
	if n == 0 {
		return a
	}
	if a.IsConst() {
		return c.BV(bvSigned(a.IVal, a.Sort.W), a.Sort.W+n)
	}
	return c.mk("sign_extend", BVSort(a.Sort.W+n), fmt.Sprint(n), nil, a)
}

func (c *TermCtx) Concat(a, b *Term) *Term {
	if a.IsConst() && b.IsConst() {
		v := new(big.Int).Lsh(a.IVal, uint(b.Sort.W))
		v.Or(v, b.IVal)
		return c.BV(v, a.Sort.W+b.Sort.W)
	}
	return c.mk("concat", BVSort(a.Sort.W+b.Sort.W), "", nil, a, b)
}

// Generic n-ary raw application (FP ops etc.); no simplification.
func (c *TermCtx) App(op string, s *Sort, args ...*Term) *Term {
	return c.mk("app", s, op, nil, args...)
}

// ---- arrays -----------------------------------------------------------------------------

func (c *TermCtx) Select(a, i *Term) *Term {
	if a.Sort.Kind != SArray {
		panic("select on non-array " + a.Sort.String())
	}
	if a.Sort.Idx != i.Sort {
		panic(fmt.Sprintf("select index sort %s want %s", i.Sort, a.Sort.Idx))
	}
	// heap level (array of arrays): a merged heap read at a merged region splits on the common condition
	if a.Op == "ite" && a.Sort.Elem.Kind == SArray {
		if i.Op == "ite" && i.Args[0] == a.Args[0] {
			return c.Ite(a.Args[0], c.Select(a.Args[1], i.Args[1]), c.Select(a.Args[2], i.Args[2]))
		}
		return c.Ite(a.Args[0], c.Select(a.Args[1], i), c.Select(a.Args[2], i))
	}
	// read-over-write with syntactically decidable indices
	cur := a
	for cur.Op == "store" {
		j := cur.Args[1]
		if j == i {
			return cur.Args[2]
		}
		if d := c.definitelyDistinct(i, j); d {
			cur = cur.Args[0]
			continue
		}
		break
	}
	if cur.Op == "constarr" {
		return cur.Args[0]
	}
	if cur.Op == "ite" && cur.Sort.Kind == SArray && a == cur {
		// select(ite(c, A, B), i) -> ite(c, select(A,i), select(B,i)) when both sides simplify
		l := c.Select(cur.Args[1], i)
		r := c.Select(cur.Args[2], i)
		if l == r {
			return l
		}
		if l.Op != "select" || r.Op != "select" {
			return c.Ite(cur.Args[0], l, r)
		}
	}
	return c.mk("select", a.Sort.Elem, "", nil, cur, i)
}

func (c *TermCtx) definitelyDistinct(i, j *Term) bool {
	if i.IsConst() && j.IsConst() {
		return i.IVal.Cmp(j.IVal) != 0
	}
	if i.Sort.Kind == SInt {
		bi, ki := splitAddConst(i)
		bj, kj := splitAddConst(j)
		if bi == bj && bi != nil {
			return ki.Cmp(kj) != 0
		}
		if c.oldRegs[i] && bj != nil && c.allocVars[bj] && kj.Sign() >= 0 {
			return true
		}
		if c.oldRegs[j] && bi != nil && c.allocVars[bi] && ki.Sign() >= 0 {
			return true
		}
	}
	return false
}

func (c *TermCtx) Store(a, i, v *Term) *Term {
	if a.Sort.Idx != i.Sort || a.Sort.Elem != v.Sort {
		panic(fmt.Sprintf("store sorts: %s [%s] := %s", a.Sort, i.Sort, v.Sort))
	}
	if a.Op == "store" && a.Args[1] == i {
		return c.Store(a.Args[0], i, v)
	}
	return c.mk("store", a.Sort, "", nil, a, i, v)
}

func (c *TermCtx) ConstArray(s *Sort, v *Term) *Term {
	return c.mk("constarr", s, "", nil, v)
}

// ---- quantifiers ----------------------------------------------------------------------------

func (c *TermCtx) Forall(bound []*Term, body *Term) *Term {
	if body.IsTrue() || body.IsFalse() {
		return body
	}
	t := c.mk("forall", BoolSort, "", nil, body)
	if t.Bound == nil {
		t.Bound = bound
	}
	return t
}

func (c *TermCtx) Exists(bound []*Term, body *Term) *Term {
	if body.IsTrue() || body.IsFalse() {
		return body
	}
	t := c.mk("exists", BoolSort, "", nil, body)
	if t.Bound == nil {
		t.Bound = bound
	}
	return t
}

// Subst replaces variables (by identity) in t.
func (c *TermCtx) Subst(t *Term, m map[*Term]*Term) *Term {
	memo := map[*Term]*Term{}
	var rec func(*Term) *Term
	rec = func(x *Term) *Term {
		if r, ok := m[x]; ok {
			return r
		}
		if len(x.Args) == 0 {
			return x
		}
		if r, ok := memo[x]; ok {
			return r
		}
		na := make([]*Term, len(x.Args))
		ch := false
		for i, a := range x.Args {
			na[i] = rec(a)
			if na[i] != a {
				ch = true
			}
		}
		r := x
		if ch {
			r = c.rebuild(x, na)
		}
		memo[x] = r
		return r
	}
	return rec(t)
}

func (c *TermCtx) rebuild(x *Term, a []*Term) *Term {
	switch x.Op {
	case "not":
		return c.Not(a[0])
	case "and":
		return c.And(a...)
	case "or":
		return c.Or(a...)
	case "=>":
		return c.Implies(a[0], a[1])
	case "=":
		return c.Eq(a[0], a[1])
	case "ite":
		return c.Ite(a[0], a[1], a[2])
	case "+":
		return c.Add(a[0], a[1])
	case "-":
		return c.Sub(a[0], a[1])
	case "*":
		return c.Mul(a[0], a[1])
	case "div":
		return c.Div(a[0], a[1])
	case "mod":
		return c.Mod(a[0], a[1])
	case "<", "<=", ">", ">=":
		return c.cmpInt(x.Op, a[0], a[1])
	case "select":
		return c.Select(a[0], a[1])
	case "store":
		return c.Store(a[0], a[1], a[2])
	case "bvadd", "bvsub", "bvmul", "bvand", "bvor", "bvxor", "bvshl", "bvlshr", "bvashr", "bvudiv", "bvurem", "bvsdiv", "bvsrem":
		return c.bvBin(x.Op, a[0], a[1])
	case "bvult", "bvule", "bvugt", "bvuge", "bvslt", "bvsle", "bvsgt", "bvsge":
		return c.BVCmp(x.Op, a[0], a[1])
	case "bvnot":
		return c.BVNot(a[0])
	case "bvneg":
		return c.Neg(a[0])
	case "extract":
		var hi, lo int
		fmt.Sscanf(x.Name, "%d:%d", &hi, &lo)
		return c.Extract(hi, lo, a[0])
	case "zero_extend":
		var n int
		fmt.Sscanf(x.Name, "%d", &n)
		return c.ZeroExt(n, a[0])
	case "sign_extend":
		var n int
		fmt.Sscanf(x.Name, "%d", &n)
		return c.SignExt(n, a[0])
	case "concat":
		return c.Concat(a[0], a[1])
	case "forall":
		t := c.mk("forall", BoolSort, "", nil, a[0])
		if t.Bound == nil {
			t.Bound = x.Bound
		}
		return t
	case "exists":
		t := c.mk("exists", BoolSort, "", nil, a[0])
		if t.Bound == nil {
			t.Bound = x.Bound
		}
		return t
	}
	return c.mk(x.Op, x.Sort, x.Name, x.IVal, a...)
}

// ---- printing ----------------------------------------------------------------------------------

func bvConstStr(v *big.Int, w int) string {
	if w%4 == 0 {
		s := v.Text(16)
		for len(s) < w/4 {
			s = "0" + s
		}
		return "#x" + s
	}
	s := v.Text(2)
	for len(s) < w {
		s = "0" + s
	}
	return "#b" + s
}

func intConstStr(v *big.Int) string {
	if v.Sign() < 0 {
		return "(- " + new(big.Int).Neg(v).String() + ")"
	}
	return v.String()
}

// Script builds an SMT-LIB script: declarations, definitions of shared subterms, assertions.
type Script struct {
	c       *TermCtx
	asserts []*Term
	// range facts of the reachable terms, computed by PrepareFacts (which creates terms and therefore runs under
	// the owner's lock); String itself only reads
	facts      map[*Term]*Term
	factsReady bool
}

// PrepareFacts computes the range assertions for every term reachable from the assertions and model terms.
func (s *Script) PrepareFacts(modelTerms []*Term) {
	c := s.c
	s.facts = map[*Term]*Term{}
	seen := map[*Term]bool{}
	var visit func(t *Term)
	visit = func(t *Term) {
		if seen[t] {
			return
		}
		seen[t] = true
		for _, a := range t.Args {
			visit(a)
		}
		if t.Op == "uf" {
			if rd := c.recs[t.Name]; rd != nil {
				visit(rd.Body)
			}
		}
		if f := c.rangeFact(t); f != nil && !f.IsTrue() {
			s.facts[t] = f
		}
	}
	for _, a := range s.asserts {
		visit(a)
	}
	for _, m := range modelTerms {
		visit(m)
	}
	s.factsReady = true
}

func (c *TermCtx) NewScript() *Script { return &Script{c: c} }
func (s *Script) Assert(t *Term)      { s.asserts = append(s.asserts, t) }

func (s *Script) String(getModel bool, modelTerms []*Term) string {
	c := s.c
	// collect reachable terms, count refs, find free vars and ufs
	refs := map[*Term]int{}
	var order []*Term
	usedVars := map[*Term]bool{}
	usedUF := map[string]bool{}
	hasBound := map[*Term]bool{} // term contains a bound variable (cannot be hoisted)
	var visit func(t *Term)
	visit = func(t *Term) {
		refs[t]++
		if refs[t] > 1 {
			return
		}
		hb := false
		for _, a := range t.Args {
			visit(a)
			if hasBound[a] {
				hb = true
			}
		}
		switch t.Op {
		case "var":
			usedVars[t] = true
		case "bvar":
			hb = true
		case "uf":
			if !usedUF[t.Name] {
				usedUF[t.Name] = true
				if rd := c.recs[t.Name]; rd != nil {
					refs[rd.Body] += 2 // never hoisted (contains the parameters), but its vars and ufs are declared
					visit(rd.Body)
				}
			}
		}
		hasBound[t] = hb
		order = append(order, t)
	}
	roots := append([]*Term{}, s.asserts...)
	roots = append(roots, modelTerms...)
	for _, a := range roots {
		visit(a)
	}
	var sb strings.Builder
	sb.WriteString("(set-option :produce-models true)\n(set-logic ALL)\n")
	var vs []*Term
	for v := range usedVars {
		vs = append(vs, v)
	}
	sort.Slice(vs, func(i, j int) bool { return vs[i].id < vs[j].id })
	for _, v := range vs {
		fmt.Fprintf(&sb, "(declare-fun %s () %s)\n", v.Name, v.Sort)
	}
	for _, n := range c.ufOrd {
		if !usedUF[n] {
			continue
		}
		f := c.ufs[n]
		if c.recs[n] != nil {
			continue
		}
		var as []string
		for _, a := range f.Args {
			as = append(as, a.String())
		}
		fmt.Fprintf(&sb, "(declare-fun %s (%s) %s)\n", f.Name, strings.Join(as, " "), f.Res)
	}
	names := map[*Term]string{}
	var pr func(t *Term) string
	pr = func(t *Term) string {
		if n, ok := names[t]; ok {
			return n
		}
		switch t.Op {
		case "true", "false":
			return t.Op
		case "const":
			if t.Sort.Kind == SBV {
				return bvConstStr(t.IVal, t.Sort.W)
			}
			return intConstStr(t.IVal)
		case "var", "bvar":
			return t.Name
		}
		var parts []string
		for _, a := range t.Args {
			parts = append(parts, pr(a))
		}
		as := strings.Join(parts, " ")
		switch t.Op {
		case "uf":
			return "(" + t.Name + " " + as + ")"
		case "app":
			if len(t.Args) == 0 {
				return t.Name
			}
			return "(" + t.Name + " " + as + ")"
		case "extract":
			var hi, lo int
			fmt.Sscanf(t.Name, "%d:%d", &hi, &lo)
			return fmt.Sprintf("((_ extract %d %d) %s)", hi, lo, as)
		case "zero_extend", "sign_extend":
			return fmt.Sprintf("((_ %s %s) %s)", t.Op, t.Name, as)
		case "constarr":
			return fmt.Sprintf("((as const %s) %s)", t.Sort, as)
		case "forall", "exists":
			var bs []string
			for _, b := range t.Bound {
				bs = append(bs, fmt.Sprintf("(%s %s)", b.Name, b.Sort))
			}
			return fmt.Sprintf("(%s (%s) %s)", t.Op, strings.Join(bs, " "), as)
		case "-":
			if len(t.Args) == 1 {
				return "(- " + as + ")"
			}
		}
		return "(" + t.Op + " " + as + ")"
	}
	// recursive specification functions (bodies printed in full: nothing is hoisted yet)
	{
		var recNames []string
		for _, n := range c.ufOrd {
			if usedUF[n] && c.recs[n] != nil {
				recNames = append(recNames, n)
			}
		}
		if len(recNames) > 0 {
			var decls, bodies []string
			for _, n := range recNames {
				rd := c.recs[n]
				var ps []string
				for _, b := range rd.Params {
					ps = append(ps, fmt.Sprintf("(%s %s)", b.Name, b.Sort))
				}
				decls = append(decls, fmt.Sprintf("(%s (%s) %s)", n, strings.Join(ps, " "), c.ufs[n].Res))
				bodies = append(bodies, pr(rd.Body))
			}
			fmt.Fprintf(&sb, "(define-funs-rec (%s) (%s))\n", strings.Join(decls, " "), strings.Join(bodies, " "))
		}
	}
	// hoist shared, closed, non-leaf subterms into define-funs (topological = visit post-order)
	n := 0
	for _, t := range order {
		if len(t.Args) == 0 || hasBound[t] {
			continue
		}
		if refs[t] > 1 {
			body := pr(t)
			n++
			nm := fmt.Sprintf("t!%d", n)
			fmt.Fprintf(&sb, "(define-fun %s () %s %s)\n", nm, t.Sort, body)
			names[t] = nm
		}
	}
	for _, t := range order {
		if hasBound[t] {
			continue
		}
		var f *Term
		if s.factsReady {
			f = s.facts[t]
		} else {
			f = c.rangeFact(t)
		}
		if f != nil && !f.IsTrue() {
			fmt.Fprintf(&sb, "(assert %s)\n", pr(f))
		}
	}
	for _, a := range s.asserts {
		fmt.Fprintf(&sb, "(assert %s)\n", pr(a))
	}
	for i, m := range modelTerms {
		fmt.Fprintf(&sb, "(define-fun mv!%d () %s %s)\n", i, m.Sort, pr(m))
	}
	sb.WriteString("(check-sat)\n")
	if getModel {
		if len(modelTerms) > 0 {
			// named model terms are defined before check-sat (see below); here only the query
			var ms []string
			for i := range modelTerms {
				ms = append(ms, fmt.Sprintf("mv!%d", i))
			}
			fmt.Fprintf(&sb, "(get-value (%s))\n", strings.Join(ms, " "))
		} else {
			sb.WriteString("(get-model)\n")
		}
	}
	return sb.String()
}
