package main

// Assumed contracts ("schemas") of external functions. Every schema used is recorded in x.trusted and
// reported in the evidence as part of the trusted base. A call to an external function without a
// schema is an unsupported construct.

import (
	"fmt"
	"go/types"
	"math"
	"math/big"
	"strings"

	"golang.org/x/tools/go/ssa"
)

func mathFloat64bits(f float64) uint64 { return math.Float64bits(f) }
func mathFloat32bits(f float32) uint32 { return math.Float32bits(f) }

type extSchema func(x *Exec, st *State, fn *ssa.Function, args []Val, c *ssa.CallCommon) Val

var extSchemas = map[string]extSchema{}

func (x *Exec) callExternal(st *State, fn *ssa.Function, args []Val, c *ssa.CallCommon) Val {
	name := fn.String()
	if o := fn.Origin(); o != nil {
		name = o.String()
	}
	h, ok := extSchemas[name]
	if !ok {
		x.fail("call to external function %s has no assumed contract (outside the verified subset)", name)
	}
	x.trusted[name] = true
	return h(x, st, fn, args, c)
}

func init() {
	extSchemas["fmt.Errorf"] = schemaErrorf
	extSchemas["bytes.NewBuffer"] = schemaNewBuffer
	extSchemas["(*bytes.Buffer).WriteByte"] = schemaBufWriteByte
	extSchemas["(*bytes.Buffer).WriteString"] = schemaBufWriteString
	extSchemas["(*bytes.Buffer).Write"] = schemaBufWriteString
	extSchemas["(*bytes.Buffer).Bytes"] = schemaBufBytes
	extSchemas["fmt.Fprintf"] = schemaFprintf
	extSchemas["math/bits.Mul64"] = schemaMul64
	extSchemas["math/bits.Add64"] = schemaAdd64
	extSchemas["math/bits.Div64"] = schemaDiv64
	extSchemas["strconv.AppendUint"] = schemaAppendUint
	extSchemas["strconv.FormatUint"] = schemaFormatUint
	extSchemas["strconv.AppendInt"] = schemaAppendInt
	extSchemas["strconv.FormatInt"] = schemaFormatInt
	extSchemas["strconv.Itoa"] = schemaItoa
	extSchemas["strconv.Atoi"] = schemaAtoi
	extSchemas["strconv.ParseUint"] = schemaParseUint
	extSchemas["(*regexp.Regexp).FindSubmatch"] = schemaFindSubmatch
	extSchemas["(*regexp.Regexp).Match"] = schemaRegexpMatch
	extSchemas["(*regexp.Regexp).MatchString"] = schemaRegexpMatch
	extSchemas["reflect.TypeOf"] = func(x *Exec, st *State, fn *ssa.Function, args []Val, c *ssa.CallCommon) Val {
		iv, ok := args[0].(IfaceVal)
		if !ok || !iv.Tag.IsConst() {
			x.fail("reflect.TypeOf of a value whose dynamic type is not statically known")
		}
		t := x.typeByID[int(iv.Tag.IVal.Int64())]
		if t == nil {
			x.fail("reflect.TypeOf(nil)")
		}
		return IfaceVal{Tag: x.o.Int(-1), Pay: map[int]Val{-1: OpaqueVal{What: "reflect.Type"}}, Sym: "", RT: t}
	}
	invokeSchemas["reflect.Type.Kind"] = func(x *Exec, st *State, recv Val, args []Val, c *ssa.CallCommon) Val {
		iv, ok := recv.(IfaceVal)
		if !ok || iv.RT == nil {
			x.fail("(reflect.Type).Kind on an unknown type")
		}
		b, ok := iv.RT.Underlying().(*types.Basic)
		if !ok {
			x.fail("(reflect.Type).Kind of a non-basic type")
		}
		kinds := map[types.BasicKind]int64{types.Bool: 1, types.Int: 2, types.Int8: 3, types.Int16: 4, types.Int32: 5, types.Int64: 6, types.Uint: 7, types.Uint8: 8,
			types.Uint16: 9, types.Uint32: 10, types.Uint64: 11, types.Uintptr: 12, types.Float32: 13, types.Float64: 14, types.String: 24}
		k, ok := kinds[b.Kind()]
		if !ok {
			x.fail("(reflect.Type).Kind: unsupported kind")
		}
		return x.o.ConstI(IntTy{64, false}, k)
	}
	extSchemas["(*strings.Builder).Len"] = func(x *Exec, st *State, fn *ssa.Function, args []Val, c *ssa.CallCommon) Val {
		return x.builderSlice(st, args[0]).Len
	}
	extSchemas["(*strings.Builder).String"] = func(x *Exec, st *State, fn *ssa.Function, args []Val, c *ssa.CallCommon) Val {
		return x.seqView(st, x.builderSlice(st, args[0]))
	}
	extSchemas["(*strings.Builder).WriteRune"] = func(x *Exec, st *State, fn *ssa.Function, args []Val, c *ssa.CallCommon) Val {
		o := x.o
		p := args[0].(PtrVal)
		cur := x.builderSlice(st, args[0])
		r := args[1].(*Term)
		// only ASCII runes are modelled (one byte); anything else is outside the schema's domain
		x.oblige("pre", "Builder.WriteRune", nil, "rune written to the strings.Builder is ASCII (domain of the assumed contract)", st.Guard, o.And(o.Le(o.Int(0), r), o.Lt(r, o.Int(128))))
		st.Cells[p.Obj] = x.appendByte(st, cur, r)
		return TupleVal{o.Int(1), x.zeroVal(types.Universe.Lookup("error").Type())}
	}
	extSchemas["strings.TrimSuffix"] = func(x *Exec, st *State, fn *ssa.Function, args []Val, c *ssa.CallCommon) Val {
		o := x.o
		s := args[0].(StrVal)
		suf, ok := args[1].(StrVal)
		if !ok || len(suf.Alts) != 1 {
			x.fail("strings.TrimSuffix: suffix must be a constant")
		}
		k := int64(len(suf.Alts[0].S))
		tail := StrVal{Arr: s.Arr, Off: o.Add(s.Off, o.Sub(s.Len, o.Int(k))), Len: o.Int(k)}
		has := o.And(o.Le(o.Int(k), s.Len), x.seqEq(tail, x.constString(suf.Alts[0].S)))
		return StrVal{Arr: s.Arr, Off: s.Off, Len: o.Ite(has, o.Sub(s.Len, o.Int(k)), s.Len)}
	}
	extSchemas["strings.ToLower"] = func(x *Exec, st *State, fn *ssa.Function, args []Val, c *ssa.CallCommon) Val {
		// The lowered string is only ever compared with lower-case ASCII literals; seqEq models that comparison exactly
		// (ASCII case plus the two non-ASCII runes that lower to ASCII letters). The result is an opaque string
		// remembered as "the lowering of s".
		o := x.o
		s := args[0].(StrVal)
		seq := x.callSeq
		x.callSeq++
		l := o.Fresh(fmt.Sprintf("tolower%d.len", seq), o.IdxSort())
		x.assumeLen(l)
		r := StrVal{Arr: o.Fresh(fmt.Sprintf("tolower%d.arr", seq), o.ByteArr()), Off: o.Idx(0), Len: l}
		if x.lowerOf == nil {
			x.lowerOf = map[*Term]StrVal{}
		}
		x.lowerOf[r.Arr] = s
		return r
	}
	extSchemas["strings.TrimLeft"] = schemaTrimLeft
	extSchemas["strings.TrimRight"] = schemaTrimRight
	extSchemas["strings.Compare"] = schemaStringsCompare
	extSchemas["strings.IndexByte"] = schemaIndexByte(false)
	extSchemas["strings.LastIndexByte"] = schemaIndexByte(true)
	extSchemas["(*sync.Mutex).Lock"] = schemaMutexLock
	extSchemas["(*sync.Mutex).Unlock"] = schemaMutexUnlock
	extSchemas["(*math/rand.Rand).Int63"] = schemaInt63
}

func mutexKey(x *Exec, v Val) string {
	p, ok := v.(PtrVal)
	if !ok || p.Obj == nil || p.Obj.Global == nil {
		x.fail("sync.Mutex: only package-level mutexes are modelled")
	}
	return "held:" + p.Obj.Global.Pkg.Pkg.Name() + "." + p.Obj.Global.Name()
}

// sync.Mutex: ghost flag held(m); Lock requires it clear (no self-deadlock) and sets it, Unlock requires it set and clears it.
func schemaMutexLock(x *Exec, st *State, fn *ssa.Function, args []Val, c *ssa.CallCommon) Val {
	k := mutexKey(x, args[0])
	held, _ := st.Ghost[k].(*Term)
	if held == nil {
		held = x.o.False()
	}
	x.oblige("lock", "Lock", []string{"C19.lock"}, "mutex is not already held by this goroutine", st.Guard, x.o.Not(held))
	st.Ghost[k] = x.o.True()
	return nil
}

func schemaMutexUnlock(x *Exec, st *State, fn *ssa.Function, args []Val, c *ssa.CallCommon) Val {
	k := mutexKey(x, args[0])
	held, _ := st.Ghost[k].(*Term)
	if held == nil {
		held = x.o.False()
	}
	x.oblige("lock", "Unlock", []string{"C19.lock", "C18.nopanic"}, "mutex is held when unlocked", st.Guard, held)
	st.Ghost[k] = x.o.False()
	return nil
}

// (*rand.Rand).Int63: some value in [0, 2^63); touches only its receiver.
func schemaInt63(x *Exec, st *State, fn *ssa.Function, args []Val, c *ssa.CallCommon) Val {
	o := x.o
	seq := x.callSeq
	x.callSeq++
	v := o.TypedFresh(fmt.Sprintf("int63.%d", seq), IntTy{64, true})
	if o.M.BV {
		x.assume(o.BVCmp("bvsge", v, o.BVi(0, 64)))
	} else {
		x.assume(o.Ge(v, o.Int(0)))
	}
	return v
}

// variadic arguments arrive as a slice built from a local array
func (x *Exec) variadicElems(st *State, v Val) []Val {
	switch l := v.(type) {
	case ListSliceVal:
		return x.listElems(st, l)
	case nil:
		return nil
	}
	x.fail("variadic argument of unsupported shape %T", v)
	return nil
}

// fmt.Errorf(format, a...): non-nil error wrapping every %w operand. The message text is not modelled.
func schemaErrorf(x *Exec, st *State, fn *ssa.Function, args []Val, c *ssa.CallCommon) Val {
	o := x.o
	format, ok := args[0].(StrVal)
	if !ok || len(format.Alts) == 0 {
		x.fail("fmt.Errorf with a non-constant format")
	}
	ev := ErrVal{Nil: o.False(), Is: map[string]*Term{}, As: map[string]*Term{}, Data: map[string]*Term{"inputLen": o.ConstI(tyInt, -1)}}
	wraps := false
	for _, a := range format.Alts {
		if strings.Contains(a.S, "%w") {
			wraps = true
		}
	}
	elems := x.variadicElems(st, args[1])
	if wraps {
		for _, e := range elems {
			inner, ok := e.(ErrVal)
			if !ok {
				continue
			}
			for _, k := range sortedTermKeys(inner.Is) {
				t := inner.Is[k]
				ev.Is[k] = o.Or(orFalse(o, ev.Is[k]), o.And(o.Not(inner.Nil), t))
			}
			for _, k := range sortedTermKeys(inner.As) {
				t := inner.As[k]
				ev.As[k] = o.Or(orFalse(o, ev.As[k]), o.And(o.Not(inner.Nil), t))
			}
			if og, ok := inner.Data["origin"]; ok {
				ev.Data["origin"] = o.Ite(inner.Nil, o.ConstI(tyInt, -1), og) // where the wrapped error came from
			}
		}
	}
	// record operand kinds (used by the "message does not reproduce the input" clause)
	allScalar := true
	for _, e := range elems {
		switch v := e.(type) {
		case ErrVal:
		case IfaceVal:
			for _, p := range v.Pay {
				if _, ok := p.(*Term); !ok {
					allScalar = false
				}
			}
			if v.Sym != "" {
				allScalar = false
			}
		default:
			allScalar = false
		}
	}
	ev.Data["scalarOperands"] = o.Bool(allScalar)
	return ev
}

// ---- bytes.Buffer: the buffer *is* the slice it was created from -------------------------------------------------

func schemaNewBuffer(x *Exec, st *State, fn *ssa.Function, args []Val, c *ssa.CallCommon) Val {
	obj := x.newObject("bytes.Buffer", fn.Signature.Results().At(0).Type().(*types.Pointer).Elem())
	st.Cells[obj] = args[0]
	return PtrVal{Nil: x.o.False(), Obj: obj}
}

func (x *Exec) bufSlice(st *State, v Val) (*Object, SliceVal) {
	p, ok := v.(PtrVal)
	if !ok || p.Obj == nil {
		x.fail("bytes.Buffer method on unknown buffer")
	}
	s, ok := st.Cells[p.Obj].(SliceVal)
	if !ok {
		x.fail("bytes.Buffer object not created by bytes.NewBuffer")
	}
	return p.Obj, s
}

func schemaBufWriteByte(x *Exec, st *State, fn *ssa.Function, args []Val, c *ssa.CallCommon) Val {
	obj, s := x.bufSlice(st, args[0])
	st.Cells[obj] = x.appendByte(st, s, args[1].(*Term))
	return x.zeroVal(types.Universe.Lookup("error").Type())
}

func schemaBufWriteString(x *Exec, st *State, fn *ssa.Function, args []Val, c *ssa.CallCommon) Val {
	obj, s := x.bufSlice(st, args[0])
	src := x.seqView(st, args[1])
	st.Cells[obj] = x.appendSeq(st, s, src)
	return TupleVal{src.Len, x.zeroVal(types.Universe.Lookup("error").Type())}
}

func schemaBufBytes(x *Exec, st *State, fn *ssa.Function, args []Val, c *ssa.CallCommon) Val {
	_, s := x.bufSlice(st, args[0])
	return s
}

// ---- fmt.Fprintf with constant formats of %d / %0Nd / %0Nx / literal text ------------------------------------------

type fmtPiece struct {
	lit   string
	verb  byte // 'd' or 'x'
	width int
	zero  bool
}

func parseFormat(f string) ([]fmtPiece, error) {
	var ps []fmtPiece
	i := 0
	for i < len(f) {
		if f[i] != '%' {
			j := i
			for j < len(f) && f[j] != '%' {
				j++
			}
			ps = append(ps, fmtPiece{lit: f[i:j]})
			i = j
			continue
		}
		i++
		if i < len(f) && f[i] == '%' {
			ps = append(ps, fmtPiece{lit: "%"})
			i++
			continue
		}
		p := fmtPiece{}
		if i < len(f) && f[i] == '0' {
			p.zero = true
			i++
		}
		for i < len(f) && f[i] >= '0' && f[i] <= '9' {
			p.width = p.width*10 + int(f[i]-'0')
			i++
		}
		if i >= len(f) || (f[i] != 'd' && f[i] != 'x') {
			return nil, fmt.Errorf("unsupported verb in format %q", f)
		}
		if p.width > 0 && !p.zero {
			return nil, fmt.Errorf("space padding not modelled in format %q", f)
		}
		p.verb = f[i]
		i++
		ps = append(ps, p)
	}
	return ps, nil
}

// digitsOf: the text of a non-negative integer v in the given base, at most maxDigits digits, left-padded with
// zeros to `width`. Returns the byte array (index 0..) and its length. Exact, quantifier-free (int mode).
func (x *Exec) digitsOf(v *Term, base int64, maxDigits int, width int, lower bool) StrVal {
	o := x.o
	if o.M.BV {
		x.fail("number formatting schemas need `mode int`")
	}
	// r_j = (v div base^j) mod base
	pow := big.NewInt(1)
	r := make([]*Term, maxDigits)
	pows := make([]*big.Int, maxDigits+1)
	for j := 0; j < maxDigits; j++ {
		pows[j] = new(big.Int).Set(pow)
		r[j] = o.Mod(o.Div(v, o.IntBig(pow)), o.Int(base))
		pow = new(big.Int).Mul(pow, big.NewInt(base))
	}
	pows[maxDigits] = pow
	// n = number of digits (>= 1), then padded to width
	n := o.Int(int64(maxDigits))
	for j := maxDigits - 1; j >= 1; j-- {
		n = o.Ite(o.Lt(v, o.IntBig(pows[j])), o.Int(int64(j)), n)
	}
	if b := o.Bounds(v); width >= 1 && width <= maxDigits && b.hi != nil && b.hi.Cmp(pows[width]) < 0 {
		n = o.Int(int64(width)) // the value always fits the padded width: exactly `width` characters
		r = r[:width]
	}
	if width > maxDigits {
		maxDigits = width
	}
	ln := n
	if width > 1 {
		ln = o.Ite(o.Lt(n, o.Int(int64(width))), o.Int(int64(width)), n)
	}
	o.SetRange(ln, big.NewInt(1), big.NewInt(int64(maxDigits)))
	ch := func(d *Term) *Term {
		if base == 10 {
			return o.Add(d, o.Int('0'))
		}
		return o.Ite(o.Lt(d, o.Int(10)), o.Add(d, o.Int('0')), o.Add(d, o.Int('a'-10)))
	}
	var arr *Term = o.ConstArray(o.ByteArr(), o.Int(0))
	for i := 0; i < maxDigits; i++ {
		// position i holds digit j = ln-1-i
		var d *Term = o.Int(0)
		for j := len(r) - 1; j >= 0; j-- {
			d = o.Ite(o.Eq(ln, o.Int(int64(i+j+1))), r[j], d)
		}
		arr = o.Store(arr, o.Int(int64(i)), ch(d))
	}
	return StrVal{Arr: arr, Off: o.Int(0), Len: ln}
}

// formatOne renders one integer operand for %d / %0Nd / %0Nx.
func (x *Exec) formatOne(p fmtPiece, v *Term, ty IntTy) []StrVal {
	o := x.o
	switch p.verb {
	case 'd':
		max := 20
		if ty.W <= 32 {
			max = 10
		}
		if ty.W <= 16 {
			max = 5
		}
		if ty.W <= 8 {
			max = 3
		}
		if !ty.Signed || o.KnownNonNeg(v) {
			return []StrVal{x.digitsOf(v, 10, max, p.width, true)}
		}
		// negative: '-' then digits padded to width-1 (fmt pads after the sign with the 0 flag)
		neg := o.Lt(v, o.Int(0))
		abs := o.Ite(neg, o.Neg(v), v)
		w := p.width
		dpos := x.digitsOf(abs, 10, max, w, true)
		wn := w - 1
		if wn < 0 {
			wn = 0
		}
		dneg := x.digitsOf(abs, 10, max, wn, true)
		minus := x.constString("-")
		empty := x.constString("")
		sign := x.iteVal(neg, StrVal{Arr: minus.Arr, Off: minus.Off, Len: minus.Len}, StrVal{Arr: empty.Arr, Off: empty.Off, Len: empty.Len}).(StrVal)
		digits := x.iteVal(neg, dneg, dpos).(StrVal)
		return []StrVal{sign, digits}
	case 'x':
		if ty.Signed && !o.KnownNonNeg(v) {
			x.fail("%%x of a possibly negative integer is not modelled")
		}
		return []StrVal{x.digitsOf(v, 16, (ty.W+3)/4, p.width, true)}
	}
	x.fail("unsupported verb")
	return nil
}

func schemaFprintf(x *Exec, st *State, fn *ssa.Function, args []Val, c *ssa.CallCommon) Val {
	o := x.o
	// writer must be a *bytes.Buffer created in this function (possibly through an interface)
	w := args[0]
	if iv, ok := w.(IfaceVal); ok {
		if len(iv.Pay) != 1 {
			x.fail("fmt.Fprintf: writer of unknown dynamic type")
		}
		for _, p := range iv.Pay {
			w = p
		}
	}
	obj, buf := x.bufSlice(st, w)
	format, ok := args[1].(StrVal)
	if !ok || len(format.Alts) == 0 {
		x.fail("fmt.Fprintf with a non-constant format")
	}
	elems := x.variadicElems(st, args[2])
	type outcome struct {
		cond *Term
		buf  SliceVal
		H    *Term
		A    *Term
	}
	var outs []outcome
	h0, a0 := st.H, st.Alloc
	for _, alt := range format.Alts {
		if alt.Cond.IsFalse() {
			continue
		}
		ps, err := parseFormat(alt.S)
		if err != nil {
			x.fail("%v", err)
		}
		st.H, st.Alloc = h0, a0
		cur := buf
		ai := 0
		for _, p := range ps {
			if p.verb == 0 {
				cur = x.appendSeq(st, cur, x.constString(p.lit))
				continue
			}
			if ai >= len(elems) {
				x.fail("fmt.Fprintf: too few operands for %q", alt.S)
			}
			iv, ok := elems[ai].(IfaceVal)
			ai++
			if !ok || len(iv.Pay) != 1 {
				x.fail("fmt.Fprintf: operand of unknown dynamic type")
			}
			for id, pay := range iv.Pay {
				ty, isInt := intTyOf(x.typeByID[id])
				if !isInt {
					x.fail("fmt.Fprintf: %%%c of non-integer operand %s", p.verb, x.typeByID[id])
				}
				// a named integer type with a String/Format method would not print as a number
				if hasStringer(x.typeByID[id]) && p.verb == 'd' {
					// fmt prints %d of a Stringer as a number (only %v/%s use String()); fine
				}
				for _, piece := range x.formatOne(p, pay.(*Term), ty) {
					cur = x.appendSeq(st, cur, piece)
				}
			}
		}
		if ai != len(elems) {
			x.fail("fmt.Fprintf: operand count mismatch for %q", alt.S)
		}
		outs = append(outs, outcome{alt.Cond, cur, st.H, st.Alloc})
	}
	if len(outs) == 0 {
		x.fail("fmt.Fprintf: no feasible format")
	}
	res := outs[len(outs)-1]
	accBuf, accH, accA := res.buf, res.H, res.A
	for i := len(outs) - 2; i >= 0; i-- {
		accBuf = x.iteVal(outs[i].cond, outs[i].buf, accBuf).(SliceVal)
		accH = o.Ite(outs[i].cond, outs[i].H, accH)
		accA = o.Ite(outs[i].cond, outs[i].A, accA)
	}
	st.H, st.Alloc = accH, accA
	st.Cells[obj] = accBuf
	n := o.IdxSub(accBuf.Len, buf.Len)
	return TupleVal{n, x.zeroVal(types.Universe.Lookup("error").Type())}
}

func hasStringer(t types.Type) bool {
	ms := types.NewMethodSet(t)
	for i := 0; i < ms.Len(); i++ {
		if n := ms.At(i).Obj().Name(); n == "String" || n == "Format" || n == "Error" {
			return true
		}
	}
	return false
}

// ---- math/bits -----------------------------------------------------------------------------------------------------

var two64 = new(big.Int).Lsh(big.NewInt(1), 64)

func schemaMul64(x *Exec, st *State, fn *ssa.Function, args []Val, c *ssa.CallCommon) Val {
	o := x.o
	a, b := args[0].(*Term), args[1].(*Term)
	if o.M.BV {
		p := o.BVOp("bvmul", o.ZeroExt(64, a), o.ZeroExt(64, b))
		// (the low word of the 128-bit product is the 64-bit product)
		return TupleVal{o.Extract(127, 64, p), o.BVOp("bvmul", a, b)}
	}
	p := o.Mul(a, b)
	return TupleVal{o.Div(p, o.IntBig(two64)), o.Mod(p, o.IntBig(two64))}
}

func schemaAdd64(x *Exec, st *State, fn *ssa.Function, args []Val, c *ssa.CallCommon) Val {
	o := x.o
	a, b, cy := args[0].(*Term), args[1].(*Term), args[2].(*Term)
	if o.M.BV {
		s := o.BVOp("bvadd", o.BVOp("bvadd", o.ZeroExt(1, a), o.ZeroExt(1, b)), o.ZeroExt(1, cy))
		return TupleVal{o.Extract(63, 0, s), o.ZeroExt(63, o.Extract(64, 64, s))}
	}
	s := o.Add(o.Add(a, b), cy)
	return TupleVal{o.Mod(s, o.IntBig(two64)), o.Div(s, o.IntBig(two64))}
}

func schemaDiv64(x *Exec, st *State, fn *ssa.Function, args []Val, c *ssa.CallCommon) Val {
	o := x.o
	hi, lo, y := args[0].(*Term), args[1].(*Term), args[2].(*Term)
	if o.M.BV {
		x.oblige("div", "bits.Div64", []string{"C18.nopanic"}, "y != 0 && y > hi", st.Guard,
			o.And(o.Neq(y, o.BVi(0, 64)), o.BVCmp("bvugt", y, hi)))
		n := o.Concat(hi, lo)
		q := o.BVOp("bvudiv", n, o.ZeroExt(64, y))
		r := o.BVOp("bvurem", n, o.ZeroExt(64, y))
		return TupleVal{o.Extract(63, 0, q), o.Extract(63, 0, r)}
	}
	x.oblige("div", "bits.Div64", []string{"C18.nopanic"}, "y != 0 && y > hi", st.Guard, o.And(o.Neq(y, o.Int(0)), o.Gt(y, hi)))
	n := o.Add(o.Mul(hi, o.IntBig(two64)), lo)
	return TupleVal{o.Div(n, y), o.Mod(n, y)}
}

// ---- strconv ---------------------------------------------------------------------------------------------------------

func schemaAppendUint(x *Exec, st *State, fn *ssa.Function, args []Val, c *ssa.CallCommon) Val {
	dst := args[0].(SliceVal)
	base, ok := args[2].(*Term).ConstInt64()
	if !ok || base != 10 {
		x.fail("strconv.AppendUint: only base 10 is modelled")
	}
	return x.appendSeq(st, dst, x.digitsOf(args[1].(*Term), 10, 20, 0, true))
}

// strconv.AppendInt / FormatInt / Itoa (base 10): an optional '-' and the digits of the absolute value, exactly as
// fmt's %d (the code under contract uses none of them today; they are here so that a change from the unsigned to the
// signed functions is decided - refuted with an input - rather than reported as outside the subset).
func (x *Exec) signedPieces(v *Term, base Val, what string) []StrVal {
	b, ok := base.(*Term).ConstInt64()
	if !ok || b != 10 {
		x.fail("%s: only base 10 is modelled", what)
	}
	return x.formatOne(fmtPiece{verb: 'd'}, v, IntTy{W: 64, Signed: true})
}

func schemaAppendInt(x *Exec, st *State, fn *ssa.Function, args []Val, c *ssa.CallCommon) Val {
	cur := args[0].(SliceVal)
	for _, piece := range x.signedPieces(args[1].(*Term), args[2], "strconv.AppendInt") {
		cur = x.appendSeq(st, cur, piece)
	}
	return cur
}

func schemaFormatInt(x *Exec, st *State, fn *ssa.Function, args []Val, c *ssa.CallCommon) Val {
	ps := x.signedPieces(args[0].(*Term), args[1], "strconv.FormatInt")
	if len(ps) == 1 {
		return ps[0]
	}
	return x.strConcat(st, ps[0], ps[1])
}

func schemaItoa(x *Exec, st *State, fn *ssa.Function, args []Val, c *ssa.CallCommon) Val {
	ps := x.signedPieces(args[0].(*Term), x.o.Int(10), "strconv.Itoa")
	if len(ps) == 1 {
		return ps[0]
	}
	return x.strConcat(st, ps[0], ps[1])
}

func schemaFormatUint(x *Exec, st *State, fn *ssa.Function, args []Val, c *ssa.CallCommon) Val {
	base, ok := args[1].(*Term).ConstInt64()
	if !ok || base != 10 {
		x.fail("strconv.FormatUint: only base 10 is modelled")
	}
	return x.digitsOf(args[0].(*Term), 10, 20, 0, true)
}

// decimalValue: (allDigits, value) of a byte sequence whose length is bounded by K (exact, quantifier free).
func (x *Exec) decimalValue(s StrVal, K int) (*Term, *Term) {
	o := x.o
	var conds []*Term
	val := o.Int(0)
	pow := big.NewInt(1)
	for j := 0; j < K; j++ {
		// j-th digit from the right: s[len-1-j]
		idx := o.Sub(o.Sub(s.Len, o.Int(1)), o.Int(int64(j)))
		b := o.SelByte(s.Arr, o.Add(s.Off, idx))
		in := o.Lt(o.Int(int64(j)), s.Len)
		conds = append(conds, o.Implies(in, o.And(o.Le(o.Int('0'), b), o.Le(b, o.Int('9')))))
		val = o.Add(val, o.Ite(in, o.Mul(o.IntBig(pow), o.Sub(b, o.Int('0'))), o.Int(0)))
		pow = new(big.Int).Mul(pow, big.NewInt(10))
	}
	return o.And(conds...), val
}

// strconv.Atoi: exact on 1..18 ASCII digits; any other input gives an unconstrained result (sound under-specification).
func schemaAtoi(x *Exec, st *State, fn *ssa.Function, args []Val, c *ssa.CallCommon) Val {
	o := x.o
	if o.M.BV {
		x.fail("strconv.Atoi schema needs `mode int`")
	}
	s := args[0].(StrVal)
	K := 18
	if b := o.Bounds(s.Len); b.hi != nil && b.hi.IsInt64() && b.hi.Int64() < 18 {
		K = int(b.hi.Int64())
	}
	digits, val := x.decimalValue(s, K)
	simple := o.And(o.Le(o.Int(1), s.Len), o.Le(s.Len, o.Int(int64(K))), digits)
	seq := x.callSeq
	x.callSeq++
	uv := o.TypedFresh(fmt.Sprintf("atoi%d.v", seq), tyInt)
	ue := x.freshErr(fmt.Sprintf("atoi%d.err", seq))
	for k := range ue.Is {
		ue.Is[k] = o.False() // strconv never returns the module's sentinels
	}
	for k := range ue.As {
		ue.As[k] = o.False()
	}
	ok := ErrVal{Nil: o.True(), Is: map[string]*Term{}, As: map[string]*Term{}, Data: map[string]*Term{}}
	return TupleVal{o.Ite(simple, val, uv), x.iteVal(simple, ok, ue)}
}

// parseUintTerms: (ok, value) of strconv.ParseUint(s, 10, 64). Bounded length: the exact semantics. Unbounded:
// uninterpreted functions of the content, with the assumed canonical-text axiom
//   ok(s) && (len(s) == 1 || s[0] != '0')  ==>  the decimal text of value(s) is s       (strconv round trip)
// and ok(s) ==> every byte of s is a digit && len(s) >= 1.
func (x *Exec) parseUintTerms(s StrVal) (*Term, *Term) {
	o := x.o
	// one representation per text: the choice between the exact bounded semantics and the uninterpreted functions
	// depends on what is known about the length when the text is first met, and must not change afterwards
	key := [3]*Term{s.Arr, s.Off, s.Len}
	if r, ok := x.puMemo[key]; ok {
		return r[0], r[1]
	}
	if x.puMemo == nil {
		x.puMemo = map[[3]*Term][2]*Term{}
	}
	if b := o.Bounds(s.Len); b.hi != nil && b.hi.IsInt64() && b.hi.Int64() <= 24 {
		K := int(b.hi.Int64())
		digits, val := x.decimalValue(s, K)
		okT := o.And(o.Le(o.Int(1), s.Len), digits, o.Lt(val, o.IntBig(two64)))
		x.puMemo[key] = [2]*Term{okT, val}
		return okT, val
	}
	valid := o.UF("parseuint.ok", BoolSort, s.Arr, s.Off, s.Len)
	val := o.UF("parseuint.val", IntSort, s.Arr, s.Off, s.Len)
	if x.puDone == nil {
		x.puDone = map[*Term]bool{}
	}
	if !x.puDone[valid] {
		x.puDone[valid] = true
		x.assume(o.And(o.Le(o.Int(0), val), o.Lt(val, o.IntBig(two64))))
		i := o.BoundVar("i", o.IdxSort())
		c := o.Select(s.Arr, o.IdxAdd(s.Off, i))
		x.assume(o.Implies(valid, o.And(o.Le(o.Int(1), s.Len),
			o.Forall([]*Term{i}, o.Implies(o.And(o.Le(o.Int(0), i), o.Lt(i, s.Len)), o.And(o.Le(o.Int('0'), c), o.Le(c, o.Int('9'))))))))
		canon := o.Or(o.Eq(s.Len, o.Int(1)), o.Neq(o.SelByte(s.Arr, s.Off), o.Int('0')))
		d := x.digitsOf(val, 10, 20, 0, true)
		var eqs []*Term
		eqs = append(eqs, o.Eq(d.Len, s.Len))
		for k := 0; k < 20; k++ {
			eqs = append(eqs, o.Implies(o.Lt(o.Int(int64(k)), s.Len), o.Eq(o.SelByte(d.Arr, o.Int(int64(k))), o.SelByte(s.Arr, o.Add(s.Off, o.Int(int64(k)))))))
		}
		x.assume(o.Implies(o.And(valid, canon), o.And(eqs...)))
		x.trusted["strconv: ParseUint(FormatUint(v)) == v and FormatUint(ParseUint(s)) == s for canonical s (round-trip axiom)"] = true
		// the outcome depends on the content only: texts with equal bytes parse alike
		for _, p := range x.puApps {
			x.assumeClosed(o.Implies(x.seqEq(p.s, s), o.And(o.Eq(p.ok, valid), o.Eq(p.val, val))))
		}
		x.puApps = append(x.puApps, puApp{s, valid, val})
	}
	x.puMemo[key] = [2]*Term{valid, val}
	return valid, val
}

type puApp struct {
	s       StrVal
	ok, val *Term
}

// strconv.ParseUint(s, 10, 64)
func schemaParseUint(x *Exec, st *State, fn *ssa.Function, args []Val, c *ssa.CallCommon) Val {
	o := x.o
	if o.M.BV {
		x.fail("strconv.ParseUint schema needs `mode int`")
	}
	s := args[0].(StrVal)
	base, ok1 := args[1].(*Term).ConstInt64()
	bits, ok2 := args[2].(*Term).ConstInt64()
	if !ok1 || !ok2 || base != 10 || bits != 64 {
		x.fail("strconv.ParseUint: only (s, 10, 64) is modelled")
	}
	seq := x.callSeq
	x.callSeq++
	ue := x.freshErr(fmt.Sprintf("parseuint%d.err", seq))
	for k := range ue.Is {
		ue.Is[k] = o.False()
	}
	for k := range ue.As {
		ue.As[k] = o.False()
	}
	ue.Nil = o.False()
	ue.Data["origin"] = o.ConstI(tyInt, 2) // a strconv error
	okErr := ErrVal{Nil: o.True(), Is: map[string]*Term{}, As: map[string]*Term{}, Data: map[string]*Term{}}
	good, val := x.parseUintTerms(s)
	uv := o.TypedFresh(fmt.Sprintf("parseuint%d.v", seq), tyUint64)
	return TupleVal{o.Ite(good, val, uv), x.iteVal(good, okErr, ue)}
}

// strings.TrimLeft(s, cutset) with a constant ASCII cutset: s without its leading run of cutset bytes.
func schemaTrimLeft(x *Exec, st *State, fn *ssa.Function, args []Val, c *ssa.CallCommon) Val {
	o := x.o
	s := args[0].(StrVal)
	cut, ok := args[1].(StrVal)
	if !ok || len(cut.Alts) != 1 {
		x.fail("strings.TrimLeft: cutset must be a constant")
	}
	var set [128]bool
	for _, ch := range []byte(cut.Alts[0].S) {
		if ch >= 128 {
			x.fail("strings.TrimLeft: non-ASCII cutset")
		}
		set[ch] = true
	}
	k := x.leadRun(s, set)
	return StrVal{Arr: s.Arr, Off: o.IdxAdd(s.Off, k), Len: o.IdxSub(s.Len, k)}
}

// strings.TrimRight(s, cutset) with a constant ASCII cutset: s without its trailing run of cutset bytes.
func schemaTrimRight(x *Exec, st *State, fn *ssa.Function, args []Val, c *ssa.CallCommon) Val {
	o := x.o
	s := args[0].(StrVal)
	cut, ok := args[1].(StrVal)
	if !ok || len(cut.Alts) != 1 {
		x.fail("strings.TrimRight: cutset must be a constant")
	}
	var set [128]bool
	for _, ch := range []byte(cut.Alts[0].S) {
		if ch >= 128 {
			x.fail("strings.TrimRight: non-ASCII cutset")
		}
		set[ch] = true
	}
	k := x.trailRun(s, set)
	return StrVal{Arr: s.Arr, Off: s.Off, Len: o.IdxSub(s.Len, k)}
}

// trailRun: the number of trailing bytes of view that belong to set (the mirror image of leadRun).
func (x *Exec) trailRun(view StrVal, set [128]bool) *Term {
	o := x.o
	name := "trailrun"
	for b := 0; b < 128; b++ {
		if set[b] {
			name += fmt.Sprintf(".%d", b)
		}
	}
	k := o.UF(name, o.IdxSort(), view.Arr, view.Off, view.Len)
	if x.leadDone == nil {
		x.leadDone = map[*Term]bool{}
	}
	if !x.leadDone[k] {
		x.leadDone[k] = true
		i := o.BoundVar("i", o.IdxSort())
		wf := o.IdxLe(o.Idx(0), view.Len)
		x.assumeClosed(o.Implies(wf, o.And(o.IdxLe(o.Idx(0), k), o.IdxLe(k, view.Len))))
		x.assumeClosed(o.Implies(wf, o.Forall([]*Term{i}, o.Implies(o.And(o.IdxLe(o.IdxSub(view.Len, k), i), o.IdxLt(i, view.Len)), x.classTerm(set, o.Select(view.Arr, o.IdxAdd(view.Off, i)))))))
		x.assumeClosed(o.Implies(o.And(wf, o.IdxLt(k, view.Len)), o.Not(x.classTerm(set, o.SelByte(view.Arr, o.IdxAdd(view.Off, o.IdxSub(o.IdxSub(view.Len, k), o.Idx(1))))))))
	}
	return k
}

// strings.Compare(a, b): -1, 0 or +1; 0 iff equal contents; antisymmetric. (The lexicographic order itself is
// an uninterpreted function of the two contents.)
func schemaStringsCompare(x *Exec, st *State, fn *ssa.Function, args []Val, c *ssa.CallCommon) Val {
	o := x.o
	a, b := args[0].(StrVal), args[1].(StrVal)
	if !o.M.BV {
		r := o.UF("strings.Compare", IntSort, a.Arr, a.Off, a.Len, b.Arr, b.Off, b.Len)
		rev := o.UF("strings.Compare", IntSort, b.Arr, b.Off, b.Len, a.Arr, a.Off, a.Len)
		x.assume(o.And(o.Le(o.Int(-1), r), o.Le(r, o.Int(1))))
		x.assume(o.Eq(r, o.Neg(rev)))
		x.assume(o.Eq(o.Eq(r, o.Int(0)), x.seqEq(a, b)))
		// byte-wise lexicographic order: decided at the first difference, else by length
		d := x.firstDiff(a, b)
		m := o.Ite(o.Le(a.Len, b.Len), a.Len, b.Len)
		ca, cb := o.SelByte(a.Arr, o.IdxAdd(a.Off, d)), o.SelByte(b.Arr, o.IdxAdd(b.Off, d))
		x.assume(o.Eq(r, o.Ite(o.Lt(d, m), o.Ite(o.Lt(ca, cb), o.Int(-1), o.Int(1)),
			o.Ite(o.Lt(a.Len, b.Len), o.Int(-1), o.Ite(o.Lt(b.Len, a.Len), o.Int(1), o.Int(0))))))
		return r
	}
	x.fail("strings.Compare schema needs `mode int`")
	return nil
}

// firstDiff(a, b): the first index at which the two byte sequences differ, or the shorter length if one is a prefix
// of the other -- a function of the two contents, introduced with its defining facts.
func (x *Exec) firstDiff(a, b StrVal) *Term {
	o := x.o
	d := o.UF("seq.firstdiff", IntSort, a.Arr, a.Off, a.Len, b.Arr, b.Off, b.Len)
	o.SetRange(d, big.NewInt(0), big.NewInt(1<<62)) // (a free choice when the views are ill-formed: harmless)
	if x.fdDone == nil {
		x.fdDone = map[*Term]bool{}
	}
	if !x.fdDone[d] {
		x.fdDone[d] = true
		m := o.Ite(o.Le(a.Len, b.Len), a.Len, b.Len)
		k := o.BoundVar("k", IntSort)
		// (stated for well-formed views only: a term built on a path that is not taken may carry a negative length,
		// and an unconditional fact about it would make the hypotheses inconsistent)
		wf := o.And(o.Le(o.Int(0), a.Len), o.Le(o.Int(0), b.Len))
		x.assumeClosed(o.Implies(wf, o.And(o.Le(o.Int(0), d), o.Le(d, m),
			o.Forall([]*Term{k}, o.Implies(o.And(o.Le(o.Int(0), k), o.Lt(k, d)),
				o.Eq(o.SelByte(a.Arr, o.IdxAdd(a.Off, k)), o.SelByte(b.Arr, o.IdxAdd(b.Off, k))))),
			o.Implies(o.Lt(d, m), o.Neq(o.SelByte(a.Arr, o.IdxAdd(a.Off, d)), o.SelByte(b.Arr, o.IdxAdd(b.Off, d)))))))
		// the first difference does not depend on the order of the operands
		rev := o.UF("seq.firstdiff", IntSort, b.Arr, b.Off, b.Len, a.Arr, a.Off, a.Len)
		o.SetRange(rev, big.NewInt(0), big.NewInt(1<<62))
		x.assumeClosed(o.Eq(d, rev))
	}
	return d
}

// indexByte(s, c) / lastIndexByte(s, c): strings.IndexByte / strings.LastIndexByte as functions of the content.
func (x *Exec) indexByte(s StrVal, c *Term, last bool) *Term {
	o := x.o
	name := "seq.indexbyte"
	if last {
		name = "seq.lastindexbyte"
	}
	r := o.UF(name, IntSort, s.Arr, s.Off, s.Len, c)
	o.SetRange(r, big.NewInt(-1), big.NewInt(1<<62))
	if x.fdDone == nil {
		x.fdDone = map[*Term]bool{}
	}
	if !x.fdDone[r] {
		x.fdDone[r] = true
		k := o.BoundVar("k", IntSort)
		at := func(i *Term) *Term { return o.SelByte(s.Arr, o.IdxAdd(s.Off, i)) }
		var rng *Term
		if last {
			rng = o.And(o.Lt(r, k), o.Lt(k, s.Len)) // no occurrence after r
		} else {
			rng = o.And(o.Le(o.Int(0), k), o.Lt(k, o.Ite(o.Lt(r, o.Int(0)), s.Len, r))) // none before r (none at all if r = -1)
		}
		if last {
			rng = o.And(o.Le(o.Int(0), k), rng)
		}
		x.assumeClosed(o.Implies(o.Le(o.Int(0), s.Len), o.And(o.Le(o.Int(-1), r), o.Lt(r, s.Len),
			o.Implies(o.Le(o.Int(0), r), o.Eq(at(r), c)),
			o.Forall([]*Term{k}, o.Implies(rng, o.Neq(at(k), c))))))
		// a function of the content: equal texts have the same index
		for _, p := range x.ibApps[name] {
			x.assumeClosed(o.Implies(o.And(o.Eq(p.c, c), x.seqEq(p.s, s)), o.Eq(p.r, r)))
		}
		if x.ibApps == nil {
			x.ibApps = map[string][]ibApp{}
		}
		x.ibApps[name] = append(x.ibApps[name], ibApp{s, c, r})
	}
	return r
}

type ibApp struct {
	s    StrVal
	c, r *Term
}

func schemaIndexByte(last bool) func(x *Exec, st *State, fn *ssa.Function, args []Val, c *ssa.CallCommon) Val {
	return func(x *Exec, st *State, fn *ssa.Function, args []Val, c *ssa.CallCommon) Val {
		if x.o.M.BV {
			x.fail("strings.IndexByte schema needs `mode int`")
		}
		return x.indexByte(args[0].(StrVal), args[1].(*Term), last)
	}
}

// strings.Builder: an object whose cell is the byte slice built so far (a zero Builder is empty)
func (x *Exec) builderSlice(st *State, v Val) SliceVal {
	p, ok := v.(PtrVal)
	if !ok || p.Obj == nil {
		x.fail("strings.Builder method on an unknown builder")
	}
	switch c := st.Cells[p.Obj].(type) {
	case SliceVal:
		return c
	case StructVal:
		// the zero value of strings.Builder
		z := x.zeroVal(types.NewSlice(typByte)).(SliceVal)
		st.Cells[p.Obj] = z
		return z
	}
	x.fail("strings.Builder in an unexpected state (%T)", st.Cells[p.Obj])
	return SliceVal{}
}

// ---- math/bits: Len / LeadingZeros / TrailingZeros -----------------------------------------------------------------------

// bitLenTerm: minimum number of bits to represent the w-bit unsigned value v (0 for v == 0), as an int-typed term.
func (x *Exec) bitLenTerm(v *Term, w int) *Term {
	o := x.o
	res := o.ConstI(tyInt, 0)
	for k := 1; k <= w; k++ {
		// v >= 2^(k-1)  ==>  length at least k
		var ge *Term
		if o.M.BV {
			ge = o.BVCmp("bvuge", v, o.BV(new(big.Int).Lsh(big.NewInt(1), uint(k-1)), v.Sort.W))
		} else {
			ge = o.Ge(v, o.IntBig(new(big.Int).Lsh(big.NewInt(1), uint(k-1))))
		}
		res = o.Ite(ge, o.ConstI(tyInt, int64(k)), res)
	}
	return res
}

// trailingZerosTerm: number of trailing zero bits of the w-bit unsigned value v (w for v == 0).
func (x *Exec) trailingZerosTerm(v *Term, w int) *Term {
	o := x.o
	res := o.ConstI(tyInt, int64(w))
	for k := w - 1; k >= 0; k-- {
		// the low k+1 bits are exactly 2^k  <==>  k trailing zeros
		var is *Term
		if o.M.BV {
			mask := new(big.Int).Sub(new(big.Int).Lsh(big.NewInt(1), uint(k+1)), big.NewInt(1))
			is = o.Eq(o.BVOp("bvand", v, o.BV(mask, v.Sort.W)), o.BV(new(big.Int).Lsh(big.NewInt(1), uint(k)), v.Sort.W))
		} else {
			is = o.Eq(o.Mod(v, o.IntBig(new(big.Int).Lsh(big.NewInt(1), uint(k+1)))), o.IntBig(new(big.Int).Lsh(big.NewInt(1), uint(k))))
		}
		res = o.Ite(is, o.ConstI(tyInt, int64(k)), res)
	}
	return res
}

func init() {
	for _, wv := range []struct {
		suffix string
		w      int
	}{{"64", 64}, {"32", 32}, {"16", 16}, {"8", 8}} {
		w := wv.w
		extSchemas["math/bits.Len"+wv.suffix] = func(x *Exec, st *State, fn *ssa.Function, args []Val, c *ssa.CallCommon) Val {
			return x.bitLenTerm(args[0].(*Term), w)
		}
		extSchemas["math/bits.LeadingZeros"+wv.suffix] = func(x *Exec, st *State, fn *ssa.Function, args []Val, c *ssa.CallCommon) Val {
			o := x.o
			l := x.bitLenTerm(args[0].(*Term), w)
			if o.M.BV {
				return o.BVOp("bvsub", o.ConstI(tyInt, int64(w)), l)
			}
			return o.Sub(o.ConstI(tyInt, int64(w)), l)
		}
		extSchemas["math/bits.TrailingZeros"+wv.suffix] = func(x *Exec, st *State, fn *ssa.Function, args []Val, c *ssa.CallCommon) Val {
			return x.trailingZerosTerm(args[0].(*Term), w)
		}
	}
}
