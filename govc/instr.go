package main

// SSA instruction semantics.

import (
	"sort"
	"fmt"
	"os"
	"go/constant"
	"go/token"
	"go/types"
	"math/big"
	"strings"

	"golang.org/x/tools/go/ssa"
)

func (x *Exec) operand(st *State, v ssa.Value) Val {
	switch c := v.(type) {
	case *ssa.Const:
		return x.constVal(c)
	case *ssa.Global:
		return PtrVal{Nil: x.o.False(), Obj: x.globalObj(c)}
	case *ssa.Function:
		return FuncVal{Fn: c}
	case *ssa.Builtin:
		return OpaqueVal{What: "builtin " + c.Name()}
	}
	r, ok := st.Regs[v]
	if !ok {
		x.fail("value %s (%s) not available", v.Name(), v.String())
	}
	return r
}

func (x *Exec) globalObj(g *ssa.Global) *Object {
	k := g.Pkg.Pkg.Name() + "." + g.Name()
	if x.gobjs == nil {
		x.gobjs = map[string]*Object{}
	}
	if o, ok := x.gobjs[k]; ok {
		return o
	}
	o := x.newObject("global:"+k, g.Type().(*types.Pointer).Elem())
	o.Global = g
	x.gobjs[k] = o
	return o
}

func (x *Exec) constString(s string) StrVal {
	if v, ok := x.strConst[s]; ok {
		return v
	}
	o := x.o
	var arr *Term = o.ConstArray(o.ByteArr(), o.ConstI(tyByte, 0))
	for i := 0; i < len(s); i++ {
		arr = o.Store(arr, o.Idx(int64(i)), o.ConstI(tyByte, int64(s[i])))
	}
	v := StrVal{Arr: arr, Off: o.Idx(0), Len: o.Idx(int64(len(s))), Alts: []StrAlt{{o.True(), s}}}
	x.strConst[s] = v
	return v
}

func (x *Exec) constVal(c *ssa.Const) Val {
	o := x.o
	t := c.Type()
	if c.Value == nil {
		return x.zeroVal(t)
	}
	switch c.Value.Kind() {
	case constant.Bool:
		return o.Bool(constant.BoolVal(c.Value))
	case constant.String:
		return x.constString(constant.StringVal(c.Value))
	case constant.Int:
		bi, _ := new(big.Int).SetString(c.Value.ExactString(), 10)
		if ity, ok := intTyOf(t); ok {
			return o.Const(ity, bi)
		}
		if fe, fs, ok := floatTyOf(t); ok {
			f, _ := new(big.Float).SetInt(bi).Float64()
			return x.floatConst(f, fe, fs)
		}
	case constant.Float:
		if fe, fs, ok := floatTyOf(t); ok {
			f, _ := constant.Float64Val(c.Value)
			return x.floatConst(f, fe, fs)
		}
		if ity, ok := intTyOf(t); ok {
			if iv := constant.ToInt(c.Value); iv.Kind() == constant.Int {
				bi, _ := new(big.Int).SetString(iv.ExactString(), 10)
				return o.Const(ity, bi)
			}
		}
	}
	x.fail("unsupported constant %s of type %s", c.Value, t)
	return nil
}

func isErrorType(t types.Type) bool {
	return types.Identical(t, types.Universe.Lookup("error").Type())
}

func isByteSlice(t types.Type) bool {
	s, ok := t.Underlying().(*types.Slice)
	if !ok {
		return false
	}
	b, ok := s.Elem().Underlying().(*types.Basic)
	return ok && b.Kind() == types.Uint8
}

func isScalarType(t types.Type) bool {
	if _, ok := intTyOf(t); ok {
		return true
	}
	if isBoolType(t) {
		return true
	}
	_, _, ok := floatTyOf(t)
	return ok
}

func (x *Exec) zeroVal(t types.Type) Val {
	o := x.o
	if isTimeType(t) {
		x.needInt("time.Time value")
		return TimeVal{Zero: o.True(), Y: o.Int(1), M: o.Int(1), D: o.Int(1), UTCMid: o.True(), Ns: o.Int(0)}
	}
	if isErrorType(t) {
		return ErrVal{Nil: o.True(), Is: map[string]*Term{}, As: map[string]*Term{}, Data: map[string]*Term{}}
	}
	switch u := t.Underlying().(type) {
	case *types.Basic:
		if ity, ok := intTyOf(t); ok {
			return o.ConstI(ity, 0)
		}
		if isBoolType(t) {
			return o.False()
		}
		if isStringType(t) {
			return x.constString("")
		}
		if fe, fs, ok := floatTyOf(t); ok {
			return x.floatConst(0, fe, fs)
		}
		if u.Kind() == types.UnsafePointer {
			return OpaqueVal{What: "unsafe.Pointer"}
		}
	case *types.Pointer:
		return PtrVal{Nil: o.True()}
	case *types.Slice:
		if isByteSlice(t) {
			return SliceVal{Reg: o.Int(0), Off: o.Idx(0), Len: o.Idx(0), Cap: o.Idx(0), Elem: u.Elem(), Cat: []StrVal{}}
		}
		if isByteSlice(u.Elem()) {
			return SubmatchVal{Matched: o.False()}
		}
		return ListSliceVal{Elem: u.Elem()}
	case *types.Struct:
		sv := StructVal{T: t, F: make([]Val, u.NumFields())}
		for i := 0; i < u.NumFields(); i++ {
			sv.F[i] = x.zeroVal(u.Field(i).Type())
		}
		return sv
	case *types.Array:
		if isScalarType(u.Elem()) {
			es := o.ElemSort(u.Elem())
			return ArrayVal{Arr: o.ConstArray(ArraySort(o.IdxSort(), es), x.zeroVal(u.Elem()).(*Term)), N: u.Len(), Elem: u.Elem()}
		}
		lv := ListVal{Elem: u.Elem()}
		for i := int64(0); i < u.Len(); i++ {
			lv.Elems = append(lv.Elems, x.zeroVal(u.Elem()))
		}
		return lv
	case *types.Interface:
		return IfaceVal{Tag: o.Int(0), Pay: map[int]Val{}}
	case *types.Signature:
		return FuncVal{}
	case *types.Map:
		return MapVal{}
	}
	x.fail("zero value of unsupported type %s", t)
	return nil
}

// freshVal: an unconstrained symbolic value of Go type t.
func (x *Exec) freshVal(prefix string, t types.Type) Val {
	o := x.o
	if isTimeType(t) {
		return x.freshTime(prefix)
	}
	if isErrorType(t) {
		return x.freshErr(prefix)
	}
	switch u := t.Underlying().(type) {
	case *types.Basic:
		if ity, ok := intTyOf(t); ok {
			return o.TypedFresh(prefix, ity)
		}
		if isBoolType(t) {
			return o.Fresh(prefix, BoolSort)
		}
		if isStringType(t) {
			l := o.Fresh(prefix+".len", o.IdxSort())
			x.assumeLen(l)
			return StrVal{Arr: o.Fresh(prefix+".arr", o.ByteArr()), Off: o.Idx(0), Len: l}
		}
		if fe, fs, ok := floatTyOf(t); ok {
			return o.Fresh(prefix, FPSort(fe, fs))
		}
	case *types.Pointer:
		obj := x.newObject("sym:"+prefix, u.Elem())
		obj.Init = x.freshVal(prefix+".pointee", u.Elem())
		return PtrVal{Nil: o.Fresh(prefix+".nil", BoolSort), Obj: obj}
	case *types.Slice:
		if isByteSlice(t) {
			return x.freshSlice(prefix, u.Elem())
		}
		if isByteSlice(u.Elem()) {
			x.fail("symbolic [][]byte value")
		}
		if _, isStruct := u.Elem().Underlying().(*types.Struct); isStruct {
			l := o.Fresh(prefix+".len", o.IdxSort())
			x.assumeLen(l)
			return SymListVal{Sym: prefix, Len: l, Elem: u.Elem(), elems: map[*Term]*Object{}}
		}
		return OpaqueVal{What: "slice " + t.String() + " " + prefix}
	case *types.Struct:
		sv := StructVal{T: t, F: make([]Val, u.NumFields())}
		for i := 0; i < u.NumFields(); i++ {
			sv.F[i] = x.freshVal(prefix+"."+u.Field(i).Name(), u.Field(i).Type())
		}
		return sv
	case *types.Array:
		if isScalarType(u.Elem()) {
			es := o.ElemSort(u.Elem())
			return ArrayVal{Arr: o.Fresh(prefix, ArraySort(o.IdxSort(), es)), N: u.Len(), Elem: u.Elem()}
		}
		lv := ListVal{Elem: u.Elem()}
		for i := int64(0); i < u.Len(); i++ {
			lv.Elems = append(lv.Elems, x.freshVal(fmt.Sprintf("%s.%d", prefix, i), u.Elem()))
		}
		return lv
	case *types.Interface:
		tag := o.Fresh(prefix+".tag", IntSort)
		o.SetRange(tag, big.NewInt(0), nil)
		return IfaceVal{Tag: tag, Pay: map[int]Val{}, Sym: prefix}
	case *types.Signature:
		return FuncVal{Sym: prefix, Sig: u}
	case *types.Tuple:
		tv := make(TupleVal, u.Len())
		for i := 0; i < u.Len(); i++ {
			tv[i] = x.freshVal(fmt.Sprintf("%s.%d", prefix, i), u.At(i).Type())
		}
		return tv
	case *types.Map:
		return OpaqueVal{What: "map " + prefix}
	}
	x.fail("symbolic value of unsupported type %s", t)
	return nil
}

func (x *Exec) assumeLen(l *Term) {
	o := x.o
	if o.M.BV {
		x.assume(o.BVCmp("bvsge", l, o.BVi(0, 64)))
	} else {
		o.SetRange(l, big.NewInt(0), tyInt.Max())
	}
}

func (x *Exec) freshSlice(prefix string, elem types.Type) SliceVal {
	o := x.o
	reg := o.Fresh(prefix+".reg", IntSort)
	o.SetRange(reg, big.NewInt(0), nil)
	off := o.Fresh(prefix+".off", o.IdxSort())
	ln := o.Fresh(prefix+".len", o.IdxSort())
	cp := o.Fresh(prefix+".cap", o.IdxSort())
	x.assumeLen(off)
	x.assumeLen(ln)
	x.assumeLen(cp)
	x.assume(o.IdxLe(ln, cp))
	// off+cap does not overflow the index space
	if o.M.BV {
		x.assume(o.BVCmp("bvsle", off, o.BVOp("bvsub", o.BV(tyInt.Max(), 64), cp)))
	} else {
		x.assume(o.Le(o.Add(off, cp), o.IntBig(tyInt.Max())))
	}
	// nil slice has no storage
	x.assume(o.Implies(o.Eq(reg, o.Int(0)), o.And(o.Eq(cp, o.Idx(0)), o.Eq(off, o.Idx(0)))))
	return SliceVal{Reg: reg, Off: off, Len: ln, Cap: cp, Elem: elem}
}

func (x *Exec) freshErr(prefix string) ErrVal {
	o := x.o
	ev := ErrVal{Nil: o.Fresh(prefix+".nil", BoolSort), Is: map[string]*Term{}, As: map[string]*Term{}, Data: map[string]*Term{}}
	for _, s := range x.w.Sentinels {
		ev.Is[s] = o.Fresh(prefix+".is."+s, BoolSort)
	}
	for _, s := range x.w.ErrTypes {
		ev.As[s] = o.Fresh(prefix+".as."+s, BoolSort)
	}
	il := o.Fresh(prefix+".inputLen", o.IdxSort())
	ev.Data["inputLen"] = il
	ev.Data["digit"] = o.TypedFresh(prefix+".digit", tyByte)
	ev.Data["origin"] = o.TypedFresh(prefix+".origin", tyInt)
	if !o.M.BV {
		ev.Data["msg.arr"] = o.Fresh(prefix+".msg.arr", o.ByteArr())
		ev.Data["msg.len"] = o.Fresh(prefix+".msg.len", IntSort)
		o.SetRange(ev.Data["msg.len"], big.NewInt(0), big.NewInt(1<<62))
	}
	return ev
}

// freshLike makes a fresh value shaped like v (used for ghost state havoc).
func (x *Exec) freshLike(prefix string, v Val) Val {
	switch t := v.(type) {
	case *Term:
		return x.o.Fresh(prefix, t.Sort)
	}
	x.fail("freshLike: unsupported ghost value %T", v)
	return nil
}

func (x *Exec) freshByteArr(prefix string) *Term {
	return x.o.ConstArray(x.o.ByteArr(), x.o.ConstI(tyByte, 0))
}

// ---- memory ------------------------------------------------------------------------------------------

func (x *Exec) cell(st *State, obj *Object) Val {
	if v, ok := st.Cells[obj]; ok {
		return v
	}
	if obj.Global != nil {
		gpk := x.w.ByPath[obj.Global.Pkg.Pkg.Path()]
		if gpk == nil {
			name := obj.Global.Pkg.Pkg.Name() + "." + obj.Global.Name()
			if name == "io.EOF" {
				return ErrVal{Nil: x.o.False(), Is: map[string]*Term{}, As: map[string]*Term{}, Data: map[string]*Term{"eofConst": x.o.True(), "isEOF": x.o.True()}}
			}
			return OpaqueVal{What: name}
		}
		v, err := x.globalValue(gpk, obj.Global.Name(), obj.T)
		if err != nil {
			x.fail("%v", err)
		}
		return v
	}
	if obj.Init != nil {
		return obj.Init
	}
	x.fail("object %s has no value", obj.Name)
	return nil
}

func (x *Exec) readPtr(st *State, p PtrVal) Val {
	o := x.o
	if p.Slice != nil {
		arr := o.Select(st.H, p.Slice.Reg)
		if isByteElem(p.Slice.Elem) {
			return o.SelByte(arr, o.IdxAdd(p.Slice.Off, p.Idx))
		}
		return o.Select(arr, o.IdxAdd(p.Slice.Off, p.Idx))
	}
	if len(p.Alts) > 0 {
		v := x.readPtr(st, p.Alts[len(p.Alts)-1].P)
		for i := len(p.Alts) - 2; i >= 0; i-- {
			v = x.iteVal(p.Alts[i].C, x.readPtr(st, p.Alts[i].P), v)
		}
		return v
	}
	if p.Obj == nil {
		x.fail("read through nil/unknown pointer")
	}
	v := x.cell(st, p.Obj)
	for _, pe := range p.Path {
		v = x.navigate(v, pe)
	}
	return v
}

func isByteElem(t types.Type) bool {
	b, ok := t.Underlying().(*types.Basic)
	return ok && b.Kind() == types.Uint8
}

func (x *Exec) navigate(v Val, pe PathElem) Val {
	o := x.o
	if pe.Index != nil {
		switch a := v.(type) {
		case ArrayVal:
			return o.Select(a.Arr, pe.Index)
		case ListVal:
			k, ok := pe.Index.ConstInt64()
			if !ok {
				if len(a.Elems) == 0 {
					x.fail("index into empty list")
				}
				r := a.Elems[len(a.Elems)-1]
				for i := len(a.Elems) - 2; i >= 0; i-- {
					r = x.iteVal(o.Eq(pe.Index, o.Idx(int64(i))), a.Elems[i], r)
				}
				return r
			}
			return a.Elems[k]
		}
		x.fail("index navigation into %T", v)
	}
	sv, ok := v.(StructVal)
	if !ok {
		x.fail("field navigation into %T", v)
	}
	return sv.F[pe.Field]
}

func (x *Exec) update(v Val, path []PathElem, nv Val) Val {
	o := x.o
	if len(path) == 0 {
		return nv
	}
	pe := path[0]
	if pe.Index != nil {
		switch a := v.(type) {
		case ArrayVal:
			if len(path) != 1 {
				x.fail("nested array update")
			}
			return ArrayVal{Arr: o.Store(a.Arr, pe.Index, nv.(*Term)), N: a.N, Elem: a.Elem}
		case ListVal:
			k, ok := pe.Index.ConstInt64()
			if !ok {
				x.fail("list update with symbolic index")
			}
			r := ListVal{Elem: a.Elem, Elems: append([]Val{}, a.Elems...)}
			r.Elems[k] = x.update(a.Elems[k], path[1:], nv)
			return r
		}
		x.fail("index update into %T", v)
	}
	sv, ok := v.(StructVal)
	if !ok {
		x.fail("field update into %T", v)
	}
	r := StructVal{T: sv.T, F: append([]Val{}, sv.F...)}
	r.F[pe.Field] = x.update(sv.F[pe.Field], path[1:], nv)
	return r
}

func (x *Exec) writePtr(st *State, p PtrVal, nv Val) {
	o := x.o
	if p.Slice != nil {
		arr := o.Select(st.H, p.Slice.Reg)
		st.H = o.Store(st.H, p.Slice.Reg, o.Store(arr, o.IdxAdd(p.Slice.Off, p.Idx), nv.(*Term)))
		if !p.LocalArr {
			x.catDirty = true // an in-place store: concatenation descriptions of slices are no longer trusted
		}
		return
	}
	if len(p.Alts) > 0 {
		for _, a := range p.Alts {
			x.writePtr(st, a.P, x.iteVal(a.C, nv, x.readPtr(st, a.P)))
		}
		return
	}
	if p.Obj == nil {
		x.fail("write through nil/unknown pointer")
	}
	if p.Obj.Global != nil {
		x.fail("store to package-level variable %s", p.Obj.Name)
	}
	if os.Getenv("GOVC_DEBUG") != "" && strings.Contains(p.Obj.T.String(), "strings.Builder") {
		fmt.Fprintf(os.Stderr, "writePtr builder: path=%d nv=%T\n", len(p.Path), nv)
	}
	if len(p.Path) == 0 && strings.Contains(p.Obj.T.String(), "strings.Builder") {
		if _, isStruct := nv.(StructVal); isStruct {
			// the zero strings.Builder: an empty byte sequence
			st.Cells[p.Obj] = x.zeroVal(types.NewSlice(typByte))
			return
		}
	}
	st.Cells[p.Obj] = x.update(x.cell(st, p.Obj), p.Path, nv)
}

func (x *Exec) nilCheck(st *State, p PtrVal, what string) {
	if p.Nil == nil || p.Nil.IsFalse() {
		return
	}
	x.oblige("nil", what, []string{"C18.nopanic"}, "pointer is not nil", st.Guard, x.o.Not(p.Nil))
}

// seqView: content view of a string or byte slice in state st.
func (x *Exec) seqView(st *State, v Val) StrVal {
	switch s := v.(type) {
	case StrVal:
		return s
	case SliceVal:
		return StrVal{Arr: x.o.Select(st.H, s.Reg), Off: s.Off, Len: s.Len}
	}
	panic(specErr{fmt.Sprintf("not a byte sequence: %T", v)})
}

func (x *Exec) lenOf(v Val) *Term {
	o := x.o
	switch s := v.(type) {
	case StrVal:
		return s.Len
	case SliceVal:
		return s.Len
	case SubmatchVal:
		return o.Ite(s.Matched, o.Idx(int64(len(s.Parts))), o.Idx(0))
	case ListSliceVal:
		if s.Obj == nil {
			return o.Idx(int64(len(s.Elems)))
		}
		return o.Idx(int64(s.Hi - s.Lo))
	case SymListVal:
		return s.Len
	case ArrayVal:
		return o.Idx(s.N)
	case ListVal:
		return o.Idx(int64(len(s.Elems)))
	case MapVal:
		return o.Idx(int64(len(s.Keys)))
	case RuneSeqVal:
		return s.Len
	}
	panic(specErr{fmt.Sprintf("len of %T", v)})
}

func (x *Exec) listElems(st *State, l ListSliceVal) []Val {
	if l.Obj == nil {
		return l.Elems
	}
	lv := x.cell(st, l.Obj).(ListVal)
	return lv.Elems[l.Lo:l.Hi]
}

// valEq: structural equality of two values.
func (x *Exec) valEq(st *State, a, b Val) *Term {
	o := x.o
	if c, ok := a.(SeqCat); ok {
		return x.seqCatEq(st, b, c)
	}
	if c, ok := b.(SeqCat); ok {
		return x.seqCatEq(st, a, c)
	}
	switch av := a.(type) {
	case *Term:
		bv, ok := b.(*Term)
		if !ok {
			panic(specErr{fmt.Sprintf("equality of term and %T", b)})
		}
		if av.Sort.Kind == SFP {
			return o.App("fp.eq", BoolSort, av, bv)
		}
		return o.Eq(av, bv)
	case StrVal, SliceVal:
		sa := x.seqView(st, a)
		sb := x.seqView(st, b)
		return x.seqEq(sa, sb)
	case StructVal:
		bv, ok := b.(StructVal)
		if !ok || len(av.F) != len(bv.F) {
			panic(specErr{"equality of different struct shapes"})
		}
		var cs []*Term
		for i := range av.F {
			cs = append(cs, x.valEq(st, av.F[i], bv.F[i]))
		}
		return o.And(cs...)
	case ArrayVal:
		bv := b.(ArrayVal)
		var cs []*Term
		for i := int64(0); i < av.N; i++ {
			cs = append(cs, o.Eq(o.Select(av.Arr, o.Idx(i)), o.Select(bv.Arr, o.Idx(i))))
		}
		return o.And(cs...)
	case TupleVal:
		bv := b.(TupleVal)
		var cs []*Term
		for i := range av {
			cs = append(cs, x.valEq(st, av[i], bv[i]))
		}
		return o.And(cs...)
	case PtrVal:
		bv, ok := b.(PtrVal)
		if ok && av.Obj == bv.Obj && samePath(av.Path, bv.Path) {
			return o.Eq(av.Nil, bv.Nil)
		}
		if ok && (av.Obj == nil || bv.Obj == nil) {
			return o.And(av.Nil, bv.Nil)
		}
	case ErrVal:
		bv, ok := b.(ErrVal)
		if ok {
			// comparison with io.EOF: the decoder's schema says whether its error is io.EOF
			if _, isC := bv.Data["eofConst"]; isC {
				return o.And(o.Not(av.Nil), orFalse(o, av.Data["isEOF"]))
			}
			if _, isC := av.Data["eofConst"]; isC {
				return o.And(o.Not(bv.Nil), orFalse(o, bv.Data["isEOF"]))
			}
			// identity of error values is not modelled; only nil-ness can be compared
			if bv.Nil.IsTrue() {
				return av.Nil
			}
			if av.Nil.IsTrue() {
				return bv.Nil
			}
		}
	case IfaceVal:
		bv, ok := b.(IfaceVal)
		if ok {
			if bv.Tag.IsConst() && bv.Tag.IVal.Sign() == 0 {
				return o.Eq(av.Tag, o.Int(0))
			}
			if av.Tag.IsConst() && av.Tag.IVal.Sign() == 0 {
				return o.Eq(bv.Tag, o.Int(0))
			}
		}
	case TimeVal:
		bv, ok := b.(TimeVal)
		if ok {
			return o.And(o.Eq(av.Zero, bv.Zero), o.Eq(av.Y, bv.Y), o.Eq(av.M, bv.M), o.Eq(av.D, bv.D), o.Eq(av.UTCMid, bv.UTCMid), o.Eq(av.Ns, bv.Ns))
		}
	case FuncVal:
		bv, ok := b.(FuncVal)
		if ok {
			if av.Fn == nil && av.Sym == "" {
				return x.funcIsNil(bv)
			}
			if bv.Fn == nil && bv.Sym == "" {
				return x.funcIsNil(av)
			}
		}
	}
	panic(specErr{fmt.Sprintf("unsupported equality %T == %T", a, b)})
}

func (x *Exec) funcIsNil(f FuncVal) *Term {
	if f.Fn != nil {
		return x.o.False()
	}
	if f.Sym != "" {
		return x.o.Var(f.Sym+".nil", BoolSort)
	}
	return x.o.True()
}

func (x *Exec) lowerEqLit(src StrVal, lit string) *Term {
	o := x.o
	for i := 0; i < len(lit); i++ {
		if lit[i] < 'a' || lit[i] > 'z' {
			x.fail("strings.ToLower result compared with %q: only lower-case ASCII literals are modelled", lit)
		}
	}
	// Exact for such literals: each letter c is produced by c, by its ASCII capital, and for i and k also by
	// U+0130 (C4 B0) and U+212A (E2 84 AA), the only non-ASCII runes whose lower case is ASCII.
	long := map[byte][]byte{'i': {0xC4, 0xB0}, 'k': {0xE2, 0x84, 0xAA}}
	var shapes []*Term
	var rec func(i int, off int64, cs []*Term)
	rec = func(i int, off int64, cs []*Term) {
		if i == len(lit) {
			all := append([]*Term{o.Eq(src.Len, o.Idx(off))}, cs...)
			shapes = append(shapes, o.And(all...))
			return
		}
		c := o.SelByte(src.Arr, o.IdxAdd(src.Off, o.Idx(off)))
		short := o.Or(o.Eq(c, o.ConstI(tyByte, int64(lit[i]))), o.Eq(c, o.ConstI(tyByte, int64(lit[i])-32)))
		rec(i+1, off+1, append(append([]*Term{}, cs...), short))
		if enc, ok := long[lit[i]]; ok {
			cs2 := append([]*Term{}, cs...)
			for k, bb := range enc {
				cs2 = append(cs2, o.Eq(o.SelByte(src.Arr, o.IdxAdd(src.Off, o.Idx(off+int64(k)))), o.ConstI(tyByte, int64(bb))))
			}
			rec(i+1, off+int64(len(enc)), cs2)
		}
	}
	rec(0, 0, nil)
	return o.Or(shapes...)
}

func (x *Exec) seqEq(a, b StrVal) *Term {
	o := x.o
	if a.Arr == b.Arr && a.Off == b.Off && a.Len == b.Len {
		return o.True()
	}
	// strings.ToLower(s) compared with an ASCII literal: equality ignoring ASCII case (see the ToLower schema)
	for _, pair := range [][2]StrVal{{a, b}, {b, a}} {
		if src, ok := x.lowerOf[pair[0].Arr]; ok && len(pair[1].Alts) == 1 {
			return x.lowerEqLit(src, pair[1].Alts[0].S)
		}
	}
	n, ok := a.Len.ConstInt64()
	if !ok {
		n, ok = b.Len.ConstInt64()
	}
	if o.M.BV && ok {
		if a.Len.IsConst() {
			n = bvSigned(a.Len.IVal, 64).Int64()
		} else {
			n = bvSigned(b.Len.IVal, 64).Int64()
		}
	}
	if ok && n <= 256 {
		cs := []*Term{o.Eq(a.Len, b.Len)}
		for i := int64(0); i < n; i++ {
			cs = append(cs, o.Eq(o.SelByte(a.Arr, o.IdxAdd(a.Off, o.Idx(i))), o.SelByte(b.Arr, o.IdxAdd(b.Off, o.Idx(i)))))
		}
		return o.And(cs...)
	}
	if ba := o.Bounds(a.Len); !o.M.BV && ba.hi != nil && ba.hi.IsInt64() && ba.hi.Int64() <= 32 {
		cs := []*Term{o.Eq(a.Len, b.Len)}
		for i := int64(0); i < ba.hi.Int64(); i++ {
			cs = append(cs, o.Implies(o.IdxLt(o.Idx(i), a.Len),
				o.Eq(o.SelByte(a.Arr, o.IdxAdd(a.Off, o.Idx(i))), o.SelByte(b.Arr, o.IdxAdd(b.Off, o.Idx(i))))))
		}
		return o.And(cs...)
	}
	i := o.BoundVar("i", o.IdxSort())
	body := o.Implies(o.And(o.IdxLe(o.Idx(0), i), o.IdxLt(i, a.Len)),
		o.Eq(o.Select(a.Arr, o.IdxAdd(a.Off, i)), o.Select(b.Arr, o.IdxAdd(b.Off, i))))
	return o.And(o.Eq(a.Len, b.Len), o.Forall([]*Term{i}, body))
}

// seqCatEq: v == p0 ++ p1 ++ ...
func (x *Exec) seqCatEq(st *State, v Val, c SeqCat) *Term {
	o := x.o
	if sl, ok := v.(SliceVal); ok && sl.Cat != nil && !x.catDirty && x.catGoal {
		// the slice was built by appends only: compare its parts with the specification's parts one by one
		// (a sufficient condition for equality; only used for goals in positive position)
		nonEmpty := func(ps []StrVal) []StrVal {
			var out []StrVal
			for _, p := range ps {
				if n, ok := p.Len.ConstInt64(); ok && n == 0 {
					continue
				}
				out = append(out, p)
			}
			return out
		}
		a, b := nonEmpty(sl.Cat), nonEmpty(c.Parts)
		if len(a) == len(b) {
			var cs []*Term
			for i := range a {
				cs = append(cs, x.seqEq(a[i], b[i]))
			}
			return o.And(cs...)
		}
	}
	sv := x.seqView(st, v)
	total := o.Idx(0)
	var cs []*Term
	pos := o.Idx(0)
	for _, p := range c.Parts {
		total = o.IdxAdd(total, p.Len)
		part := StrVal{Arr: sv.Arr, Off: o.IdxAdd(sv.Off, pos), Len: p.Len}
		// element-wise equality of the window with p (length equality is by construction)
		if n, ok := p.Len.ConstInt64(); ok && n <= 256 {
			for i := int64(0); i < n; i++ {
				cs = append(cs, o.Eq(o.SelByte(part.Arr, o.IdxAdd(part.Off, o.Idx(i))), o.SelByte(p.Arr, o.IdxAdd(p.Off, o.Idx(i)))))
			}
		} else if b := o.Bounds(p.Len); !o.M.BV && b.hi != nil && b.hi.IsInt64() && b.hi.Int64() <= 32 {
			// bounded length: guarded element-wise equalities
			var es []*Term
			for i := int64(0); i < b.hi.Int64(); i++ {
				es = append(es, o.Implies(o.IdxLt(o.Idx(i), p.Len),
					o.Eq(o.SelByte(part.Arr, o.IdxAdd(part.Off, o.Idx(i))), o.SelByte(p.Arr, o.IdxAdd(p.Off, o.Idx(i))))))
			}
			cs = append(cs, o.And(es...))
		} else {
			i := o.BoundVar("i", o.IdxSort())
			body := o.Implies(o.And(o.IdxLe(o.Idx(0), i), o.IdxLt(i, p.Len)),
				o.Eq(o.Select(part.Arr, o.IdxAdd(part.Off, i)), o.Select(p.Arr, o.IdxAdd(p.Off, i))))
			cs = append(cs, o.Forall([]*Term{i}, body))
		}
		pos = o.IdxAdd(pos, p.Len)
	}
	cs = append([]*Term{o.Eq(sv.Len, total)}, cs...)
	return o.And(cs...)
}

// ---- instructions ---------------------------------------------------------------------------------------

func (x *Exec) step(st *State, ins ssa.Instruction) {
	o := x.o
	switch t := ins.(type) {
	case *ssa.DebugRef:
		return
	case *ssa.Alloc:
		et := t.Type().(*types.Pointer).Elem()
		if at, ok := et.Underlying().(*types.Array); ok && isByteElem(at.Elem()) {
			// byte arrays live in the byte heap so that they can be sliced
			reg := x.newRegion(st)
			st.H = o.Store(st.H, reg, o.ConstArray(o.ByteArr(), o.ConstI(tyByte, 0)))
			obj := x.newObject("local:"+t.Name(), et)
			obj.Reg = reg
			obj.N = at.Len()
			st.Regs[t] = PtrVal{Nil: o.False(), Obj: obj}
			return
		}
		obj := x.newObject("local:"+t.Name(), et)
		if strings.Contains(et.String(), "strings.Builder") {
			st.Cells[obj] = x.zeroVal(types.NewSlice(typByte)) // the zero Builder: an empty byte sequence
		} else {
			st.Cells[obj] = x.zeroVal(et)
		}
		st.Regs[t] = PtrVal{Nil: o.False(), Obj: obj}
	case *ssa.Store:
		p := x.operand(st, t.Addr).(PtrVal)
		x.nilCheck(st, p, "store")
		x.writePtr(st, p, x.operand(st, t.Val))
	case *ssa.UnOp:
		st.Regs[t] = x.unop(st, t)
	case *ssa.BinOp:
		st.Regs[t] = x.binop(st, t)
	case *ssa.FieldAddr:
		p := x.operand(st, t.X).(PtrVal)
		x.nilCheck(st, p, "field")
		np := p
		np.Path = append(append([]PathElem{}, p.Path...), PathElem{Field: t.Field})
		st.Regs[t] = np
	case *ssa.Field:
		sv, ok := x.operand(st, t.X).(StructVal)
		if !ok {
			x.fail("Field of non-struct")
		}
		st.Regs[t] = sv.F[t.Field]
	case *ssa.IndexAddr:
		st.Regs[t] = x.indexAddr(st, t)
	case *ssa.Index:
		xv := x.operand(st, t.X)
		idx := x.toIdx(x.operand(st, t.Index).(*Term), t.Index.Type())
		switch a := xv.(type) {
		case ArrayVal:
			x.boundsCheck(st, idx, o.Idx(a.N), "index")
			st.Regs[t] = o.Select(a.Arr, idx)
		case ListVal:
			x.boundsCheck(st, idx, o.Idx(int64(len(a.Elems))), "index")
			st.Regs[t] = x.navigate(a, PathElem{Index: idx})
		case StrVal:
			x.boundsCheck(st, idx, a.Len, "index")
			st.Regs[t] = o.SelByte(a.Arr, o.IdxAdd(a.Off, idx))
		default:
			x.fail("Index on %T", xv)
		}
	case *ssa.Lookup:
		st.Regs[t] = x.lookup(st, t)
	case *ssa.Slice:
		st.Regs[t] = x.sliceOp(st, t)
	case *ssa.Convert:
		st.Regs[t] = x.convert(st, t.X, t.Type())
	case *ssa.ChangeType:
		st.Regs[t] = x.operand(st, t.X)
	case *ssa.MakeInterface:
		st.Regs[t] = x.makeInterface(st, x.operand(st, t.X), t.X.Type(), t.Type())
	case *ssa.ChangeInterface:
		st.Regs[t] = x.changeInterface(st, x.operand(st, t.X), t.X.Type(), t.Type())
	case *ssa.TypeAssert:
		st.Regs[t] = x.typeAssert(st, t)
	case *ssa.Extract:
		tv, ok := x.operand(st, t.Tuple).(TupleVal)
		if !ok {
			x.fail("Extract from non-tuple %T", x.operand(st, t.Tuple))
		}
		st.Regs[t] = tv[t.Index]
	case *ssa.MakeClosure:
		fv := FuncVal{Fn: t.Fn.(*ssa.Function)}
		for _, b := range t.Bindings {
			fv.Free = append(fv.Free, x.operand(st, b))
		}
		st.Regs[t] = fv
	case *ssa.MakeSlice:
		if !isByteSlice(t.Type()) {
			x.fail("MakeSlice of non-byte slice")
		}
		ln := x.toIdx(x.operand(st, t.Len).(*Term), t.Len.Type())
		cp := x.toIdx(x.operand(st, t.Cap).(*Term), t.Cap.Type())
		x.oblige("makeslice", "", []string{"C18.nopanic"}, "0 <= len <= cap", st.Guard, o.And(o.IdxLe(o.Idx(0), ln), o.IdxLe(ln, cp)))
		reg := x.newRegion(st)
		st.H = o.Store(st.H, reg, o.ConstArray(o.ByteArr(), o.ConstI(tyByte, 0)))
		st.Regs[t] = SliceVal{Reg: reg, Off: o.Idx(0), Len: ln, Cap: cp, Elem: t.Type().Underlying().(*types.Slice).Elem()}
	case *ssa.Call:
		before, _ := st.Ghost["reports"].(*Term)
		x.callPosStack = append(x.callPosStack, t.Pos())
		v := x.call(st, t, t.Common())
		if v != nil {
			st.Regs[t] = v
		}
		if x.inlineDepth > 0 && x.fc == nil {
			// a call made by a callee that is verified through its body: its result stays addressable by
			// specifications of the root function (callres / callReported), by the chain of call positions
			key := posChainKey(x.callPosStack)
			if x.inlinedCallRes == nil {
				x.inlinedCallRes = map[string]Val{}
				x.inlinedCallRep = map[string]*Term{}
			}
			if v != nil {
				x.inlinedCallRes[key] = v
			}
			if after, _ := st.Ghost["reports"].(*Term); after != nil {
				b0 := before
				if b0 == nil {
					b0 = o.Int(0)
				}
				x.inlinedCallRep[key] = o.Lt(b0, after)
			}
		}
		x.callPosStack = x.callPosStack[:len(x.callPosStack)-1]
		if after, _ := st.Ghost["reports"].(*Term); after != nil && x.inlineDepth == 0 {
			// whether this call reported to a TestingT (for callReported in specifications)
			if before == nil {
				before = o.Int(0)
			}
			st.Ghost["$rep."+t.Name()] = o.Lt(before, after)
		}
	case *ssa.Defer:
		x.deferCall(st, t)
	case *ssa.RunDefers:
		x.runDefers(st, t.Block())
	case *ssa.Range:
		st.Regs[t] = x.rangeInit(st, t)
	case *ssa.Next:
		st.Regs[t] = x.rangeNext(st, t)
	case *ssa.Go, *ssa.Send, *ssa.Select, *ssa.MapUpdate, *ssa.MakeChan, *ssa.MakeMap:
		x.fail("unsupported construct %T (outside the verified subset)", ins)
	default:
		x.fail("unsupported instruction %T", ins)
	}
}

func (x *Exec) toIdx(t *Term, ty types.Type) *Term {
	ity, ok := intTyOf(ty)
	if !ok {
		x.fail("index of non-integer type %s", ty)
	}
	return x.o.ConvInt(ity, tyInt, t)
}

func (x *Exec) boundsCheck(st *State, idx, n *Term, what string) {
	o := x.o
	x.oblige("bounds", what, []string{"C18.nopanic"}, "0 <= index < length", st.Guard, o.And(o.IdxLe(o.Idx(0), idx), o.IdxLt(idx, n)))
}

func (x *Exec) indexAddr(st *State, t *ssa.IndexAddr) Val {
	o := x.o
	idx := x.toIdx(x.operand(st, t.Index).(*Term), t.Index.Type())
	switch b := x.operand(st, t.X).(type) {
	case SliceVal:
		x.boundsCheck(st, idx, b.Len, "index")
		s := b
		return PtrVal{Nil: o.False(), Slice: &s, Idx: idx}
	case PtrVal: // pointer to array
		x.nilCheck(st, b, "index")
		if b.Obj != nil && b.Obj.Reg != nil {
			x.boundsCheck(st, idx, o.Idx(b.Obj.N), "index")
			s := SliceVal{Reg: b.Obj.Reg, Off: o.Idx(0), Len: o.Idx(b.Obj.N), Cap: o.Idx(b.Obj.N), Elem: typByte}
			return PtrVal{Nil: o.False(), Slice: &s, Idx: idx, LocalArr: true}
		}
		at := t.X.Type().Underlying().(*types.Pointer).Elem().Underlying().(*types.Array)
		x.boundsCheck(st, idx, o.Idx(at.Len()), "index")
		np := b
		np.Path = append(append([]PathElem{}, b.Path...), PathElem{Index: idx})
		return np
	case ListSliceVal:
		n := len(x.listElems(st, b))
		x.boundsCheck(st, idx, o.Idx(int64(n)), "index")
		if b.Obj != nil {
			return PtrVal{Nil: o.False(), Obj: b.Obj, Path: []PathElem{{Index: o.IdxAdd(idx, o.Idx(int64(b.Lo)))}}}
		}
		// immutable table element: materialise a read-only object
		obj := x.newObject("tableelem", b.Elem)
		obj.Init = x.navigate(ListVal{Elems: b.Elems, Elem: b.Elem}, PathElem{Index: idx})
		obj.ReadOnly = true
		return PtrVal{Nil: o.False(), Obj: obj}
	case SubmatchVal:
		x.boundsCheck(st, idx, x.lenOf(b), "index")
		k, ok := idx.ConstInt64()
		if !ok {
			x.fail("submatch index must be constant after unrolling")
		}
		if int(k) >= len(b.Parts) {
			// out of range: the bounds obligation above fails; keep going with a dummy
			obj := x.newObject("submatch-oob", types.NewSlice(typByte))
			obj.Init = x.zeroVal(types.NewSlice(typByte))
			obj.ReadOnly = true
			return PtrVal{Nil: o.False(), Obj: obj}
		}
		obj := x.newObject("submatch", types.NewSlice(typByte))
		obj.Init = b.Parts[k]
		obj.ReadOnly = true
		return PtrVal{Nil: o.False(), Obj: obj}
	case SymListVal:
		x.boundsCheck(st, idx, b.Len, "index")
		return PtrVal{Nil: o.False(), Obj: x.symListElem(b, idx)}
	case RuneSeqVal:
		x.boundsCheck(st, idx, b.Len, "index")
		obj := x.newObject("rune", types.Typ[types.Int32])
		obj.Init = o.Select(b.Arr, idx)
		obj.ReadOnly = true
		return PtrVal{Nil: o.False(), Obj: obj}
	}
	x.fail("IndexAddr on %T", x.operand(st, t.X))
	return nil
}

// symListElem: the object holding element idx of a symbolic list (one per index term; read-only).
func (x *Exec) symListElem(b SymListVal, idx *Term) *Object {
	if obj, ok := b.elems[idx]; ok {
		return obj
	}
	obj := x.newObject(fmt.Sprintf("elem:%s", b.Sym), b.Elem)
	obj.Init = x.freshVal(fmt.Sprintf("%s.at%d", b.Sym, len(b.elems)), b.Elem)
	obj.ReadOnly = true
	b.elems[idx] = obj
	return obj
}

func (x *Exec) sliceOp(st *State, t *ssa.Slice) Val {
	o := x.o
	get := func(v ssa.Value) *Term {
		if v == nil {
			return nil
		}
		return x.toIdx(x.operand(st, v).(*Term), v.Type())
	}
	lo, hi, mx := get(t.Low), get(t.High), get(t.Max)
	if lo == nil {
		lo = o.Idx(0)
	}
	switch b := x.operand(st, t.X).(type) {
	case StrVal:
		if hi == nil {
			hi = b.Len
		}
		x.oblige("bounds", "slice", []string{"C18.nopanic"}, "0 <= low <= high <= len", st.Guard,
			o.And(o.IdxLe(o.Idx(0), lo), o.IdxLe(lo, hi), o.IdxLe(hi, b.Len)))
		return StrVal{Arr: b.Arr, Off: o.IdxAdd(b.Off, lo), Len: o.IdxSub(hi, lo)}
	case SliceVal:
		if hi == nil {
			hi = b.Len
		}
		cp := b.Cap
		if mx != nil {
			x.oblige("bounds", "slice", []string{"C18.nopanic"}, "high <= max <= cap", st.Guard, o.And(o.IdxLe(hi, mx), o.IdxLe(mx, b.Cap)))
			cp = mx
		}
		x.oblige("bounds", "slice", []string{"C18.nopanic"}, "0 <= low <= high <= cap", st.Guard,
			o.And(o.IdxLe(o.Idx(0), lo), o.IdxLe(lo, hi), o.IdxLe(hi, b.Cap)))
		r := SliceVal{Reg: b.Reg, Off: o.IdxAdd(b.Off, lo), Len: o.IdxSub(hi, lo), Cap: o.IdxSub(cp, lo), Elem: b.Elem}
		if z, ok := lo.ConstInt64(); ok && z == 0 {
			same := hi == b.Len
			if !same && !o.M.BV {
				if d, ok := o.Sub(hi, b.Len).ConstInt64(); ok && d == 0 {
					same = true
				}
			}
			if same {
				r.Len = b.Len
				r.Cat = b.Cat // s[:len(s)] and s[:len(s):max]: the same elements, so the same description
			}
		}
		return r
	case PtrVal: // pointer to array
		x.nilCheck(st, b, "slice")
		if b.Obj != nil && b.Obj.Reg != nil {
			n := o.Idx(b.Obj.N)
			if hi == nil {
				hi = n
			}
			x.oblige("bounds", "slice", []string{"C18.nopanic"}, "0 <= low <= high <= len", st.Guard,
				o.And(o.IdxLe(o.Idx(0), lo), o.IdxLe(lo, hi), o.IdxLe(hi, n)))
			return SliceVal{Reg: b.Obj.Reg, Off: lo, Len: o.IdxSub(hi, lo), Cap: o.IdxSub(n, lo), Elem: typByte}
		}
		if b.Obj != nil {
			if lv, ok := x.cell(st, b.Obj).(ListVal); ok && len(b.Path) == 0 {
				l, ok1 := lo.ConstInt64()
				h := int64(len(lv.Elems))
				ok2 := true
				if hi != nil {
					h, ok2 = hi.ConstInt64()
				}
				if !ok1 || !ok2 {
					x.fail("slice of list with symbolic bounds")
				}
				return ListSliceVal{Obj: b.Obj, Lo: int(l), Hi: int(h), Elem: lv.Elem}
			}
		}
		x.fail("Slice of pointer to unsupported array")
	case ListSliceVal:
		l, ok1 := lo.ConstInt64()
		n := len(x.listElems(st, b))
		h := int64(n)
		ok2 := true
		if hi != nil {
			h, ok2 = hi.ConstInt64()
		}
		if !ok1 || !ok2 || l < 0 || h > int64(n) || l > h {
			x.fail("slice of table with unsupported bounds")
		}
		r := b
		if b.Obj == nil {
			r.Elems = b.Elems[l:h]
		} else {
			r.Lo, r.Hi = b.Lo+int(l), b.Lo+int(h)
		}
		return r
	}
	x.fail("Slice on %T", x.operand(st, t.X))
	return nil
}

func (x *Exec) lookup(st *State, t *ssa.Lookup) Val {
	o := x.o
	switch b := x.operand(st, t.X).(type) {
	case StrVal:
		idx := x.toIdx(x.operand(st, t.Index).(*Term), t.Index.Type())
		x.boundsCheck(st, idx, b.Len, "index")
		return o.SelByte(b.Arr, o.IdxAdd(b.Off, idx))
	case MapVal:
		key, ok := x.operand(st, t.Index).(StrVal)
		if !ok {
			x.fail("map lookup with non-string key")
		}
		found := o.False()
		var res Val = x.zeroVal(b.ValT)
		for i := len(b.Keys) - 1; i >= 0; i-- {
			eq := x.seqEq(key, x.constString(b.Keys[i]))
			found = o.Or(eq, found)
			res = x.iteVal(eq, b.Vals[i], res)
		}
		if t.CommaOk {
			return TupleVal{res, found}
		}
		return res
	}
	x.fail("Lookup on %T", x.operand(st, t.X))
	return nil
}

func (x *Exec) unop(st *State, t *ssa.UnOp) Val {
	o := x.o
	switch t.Op {
	case token.MUL: // load
		p, ok := x.operand(st, t.X).(PtrVal)
		if !ok {
			x.fail("load through %T", x.operand(st, t.X))
		}
		x.nilCheck(st, p, "load")
		if p.Obj != nil && p.Obj.Global != nil {
			gpk := x.w.ByPath[p.Obj.Global.Pkg.Pkg.Path()]
			if gpk == nil {
				return x.readPtr(st, p)
			}
			if mu, ok := gpk.Contracts.Guarded[p.Obj.Global.Name()]; ok {
				held, _ := st.Ghost["held:"+gpk.Name+"."+mu].(*Term)
				if held == nil {
					held = x.o.False()
				}
				x.oblige("guarded", p.Obj.Global.Name(), []string{"C19.lock"}, p.Obj.Global.Name()+" is only read with "+mu+" held", st.Guard, held)
			}
		}
		return x.readPtr(st, p)
	case token.NOT:
		return o.Not(x.operand(st, t.X).(*Term))
	case token.SUB:
		v := x.operand(st, t.X).(*Term)
		if ity, ok := intTyOf(t.Type()); ok {
			return o.NegInt(ity, v)
		}
		if _, _, ok := floatTyOf(t.Type()); ok {
			return o.App("fp.neg", v.Sort, v)
		}
	case token.XOR:
		v := x.operand(st, t.X).(*Term)
		if ity, ok := intTyOf(t.Type()); ok {
			return o.NotInt(ity, v)
		}
	}
	x.fail("unsupported unary operator %s on %s", t.Op, t.X.Type())
	return nil
}

func (x *Exec) binop(st *State, t *ssa.BinOp) Val {
	o := x.o
	a, b := x.operand(st, t.X), x.operand(st, t.Y)
	xt := t.X.Type()
	// comparisons of non-scalars
	if t.Op == token.EQL || t.Op == token.NEQ {
		if _, isTerm := a.(*Term); !isTerm {
			eq := x.valEqCode(st, a, b)
			if t.Op == token.NEQ {
				return o.Not(eq)
			}
			return eq
		}
	}
	if ity, ok := intTyOf(xt); ok {
		at, bt := a.(*Term), b.(*Term)
		switch t.Op {
		case token.EQL, token.NEQ, token.LSS, token.LEQ, token.GTR, token.GEQ:
			return o.Cmp(t.Op, ity, at, bt)
		case token.QUO, token.REM:
			x.oblige("div", "", []string{"C18.nopanic"}, "divisor is not zero", st.Guard, o.Neq(bt, o.ConstI(ity, 0)))
		}
		byt := ity
		if t.Op == token.SHL || t.Op == token.SHR {
			byt, _ = intTyOf(t.Y.Type())
			if byt.Signed {
				x.oblige("shift", "", []string{"C18.nopanic"}, "shift count is not negative", st.Guard, o.Cmp(token.GEQ, byt, bt, o.ConstI(byt, 0)))
			}
			if !o.M.BV {
				// constant-fold friendly: counts are passed as they are
			}
		}
		r, err := o.Arith(t.Op, ity, at, bt, byt)
		if err != nil {
			x.fail("%v", err)
		}
		return r
	}
	if isBoolType(xt) {
		at, bt := a.(*Term), b.(*Term)
		switch t.Op {
		case token.EQL:
			return o.Eq(at, bt)
		case token.NEQ:
			return o.Neq(at, bt)
		case token.AND, token.LAND:
			return o.And(at, bt)
		case token.OR, token.LOR:
			return o.Or(at, bt)
		}
	}
	if fq, isQ := a.(FloatQ); isQ {
		// hours / integer constant (int mode): stays symbolic
		if c, ok := t.Y.(*ssa.Const); ok && t.Op == token.QUO && c.Value != nil {
			if f, exact := constant.Float64Val(constant.ToFloat(c.Value)); exact && f == float64(int64(f)) && f >= 1 && f <= 1000 {
				return FloatQ{Q: fq.Q, R: fq.R, Div: fq.Div * int64(f)}
			}
		}
		x.fail("float arithmetic on a duration's hours other than division by a small integer constant")
	}
	if _, _, ok := floatTyOf(xt); ok {
		at, bt := a.(*Term), b.(*Term)
		rm := o.App("RNE", &Sort{Kind: SRM})
		switch t.Op {
		case token.EQL:
			return o.App("fp.eq", BoolSort, at, bt)
		case token.NEQ:
			return o.Not(o.App("fp.eq", BoolSort, at, bt))
		case token.LSS:
			return o.App("fp.lt", BoolSort, at, bt)
		case token.LEQ:
			return o.App("fp.leq", BoolSort, at, bt)
		case token.GTR:
			return o.App("fp.gt", BoolSort, at, bt)
		case token.GEQ:
			return o.App("fp.geq", BoolSort, at, bt)
		case token.ADD:
			return o.App("fp.add", at.Sort, rm, at, bt)
		case token.SUB:
			return o.App("fp.sub", at.Sort, rm, at, bt)
		case token.MUL:
			return o.App("fp.mul", at.Sort, rm, at, bt)
		case token.QUO:
			return o.App("fp.div", at.Sort, rm, at, bt)
		}
	}
	if isStringType(xt) {
		sa, sb := a.(StrVal), b.(StrVal)
		switch t.Op {
		case token.ADD:
			return x.strConcat(st, sa, sb)
		}
	}
	x.fail("unsupported binary operator %s on %s", t.Op, xt)
	return nil
}

// valEqCode: == as the Go code evaluates it (pointer/interface nil comparisons, strings, structs).
func (x *Exec) valEqCode(st *State, a, b Val) (res *Term) {
	defer func() {
		if r := recover(); r != nil {
			if se, ok := r.(specErr); ok {
				x.fail("%s", se.msg)
			}
			panic(r)
		}
	}()
	if sa, ok := a.(SliceVal); ok {
		// slices compare only with nil
		sb := b.(SliceVal)
		if sb.Reg.IsConst() {
			return x.o.Eq(sa.Reg, x.o.Int(0))
		}
		return x.o.Eq(sb.Reg, x.o.Int(0))
	}
	if sa, ok := a.(SubmatchVal); ok {
		_ = b
		return x.o.Not(sa.Matched)
	}
	return x.valEq(st, a, b)
}

func (x *Exec) strConcat(st *State, a, b StrVal) Val {
	o := x.o
	if n, ok := a.Len.ConstInt64(); ok && n == 0 {
		return b
	}
	if n, ok := b.Len.ConstInt64(); ok && n == 0 {
		return a
	}
	// general concatenation: fresh array with defining axioms
	arr := o.Fresh("cat", o.ByteArr())
	i := o.BoundVar("i", o.IdxSort())
	x.assume(o.Forall([]*Term{i}, o.Implies(o.And(o.IdxLe(o.Idx(0), i), o.IdxLt(i, a.Len)),
		o.Eq(o.Select(arr, i), o.Select(a.Arr, o.IdxAdd(a.Off, i))))))
	j := o.BoundVar("j", o.IdxSort())
	x.assume(o.Forall([]*Term{j}, o.Implies(o.And(o.IdxLe(o.Idx(0), j), o.IdxLt(j, b.Len)),
		o.Eq(o.Select(arr, o.IdxAdd(a.Len, j)), o.Select(b.Arr, o.IdxAdd(b.Off, j))))))
	return StrVal{Arr: arr, Off: o.Idx(0), Len: o.IdxAdd(a.Len, b.Len)}
}

func (x *Exec) convert(st *State, xv ssa.Value, to types.Type) Val {
	o := x.o
	v := x.operand(st, xv)
	from := xv.Type()
	if fi, ok := intTyOf(from); ok {
		if ti, ok := intTyOf(to); ok {
			return o.ConvInt(fi, ti, v.(*Term))
		}
		if fe, fs, ok := floatTyOf(to); ok {
			return x.intToFloat(v.(*Term), fi, fe, fs)
		}
		if isStringType(to) {
			x.fail("conversion integer -> string")
		}
	}
	if _, _, ok := floatTyOf(from); ok {
		if fq, isQ := v.(FloatQ); isQ {
			ti, ok := intTyOf(to)
			if !ok {
				x.fail("conversion of a duration's hours to %s", to)
			}
			// exact when the duration is a whole number of hours divisible by Div; otherwise unspecified here
			d := o.Int(fq.Div)
			exact := o.And(o.Eq(fq.R, o.Int(0)), o.Eq(o.Mod(fq.Q, d), o.Int(0)))
			x.callSeq++
			other := o.TypedFresh(fmt.Sprintf("hours%d.int", x.callSeq), ti)
			return o.Ite(exact, o.Div(fq.Q, d), other)
		}
		if ti, ok := intTyOf(to); ok {
			return x.floatToInt(v.(*Term), ti)
		}
		if fe, fs, ok := floatTyOf(to); ok {
			fv := v.(*Term)
			if fv.Sort.E == fe && fv.Sort.S == fs {
				return fv
			}
			return o.App(fmt.Sprintf("(_ to_fp %d %d)", fe, fs), FPSort(fe, fs), o.App("RNE", &Sort{Kind: SRM}), fv)
		}
	}
	if isStringType(from) && isByteSlice(to) {
		s := v.(StrVal)
		reg := x.newRegion(st)
		st.H = o.Store(st.H, reg, s.Arr)
		return SliceVal{Reg: reg, Off: s.Off, Len: s.Len, Cap: s.Len, Elem: to.Underlying().(*types.Slice).Elem(), Cat: []StrVal{s}}
	}
	if isByteSlice(from) && isStringType(to) {
		return x.seqView(st, v)
	}
	if isByteSlice(from) && isByteSlice(to) {
		return v
	}
	if isStringType(from) && isStringType(to) {
		return v
	}
	if isStringType(from) {
		if sl, ok := to.Underlying().(*types.Slice); ok {
			if b, ok := sl.Elem().Underlying().(*types.Basic); ok && b.Kind() == types.Int32 {
				return x.stringToRunes(st, v.(StrVal))
			}
		}
	}
	// identical underlying types (named conversions)
	if types.Identical(from.Underlying(), to.Underlying()) {
		return v
	}
	x.fail("unsupported conversion %s -> %s", from, to)
	return nil
}

// ---- floats (bv mode only) ---------------------------------------------------------------------------------

func (x *Exec) floatConst(f float64, e, s int) *Term {
	o := x.o
	if e == 8 {
		bits := uint64(float32bits(float32(f)))
		return o.App("(_ to_fp 8 24)", FPSort(8, 24), o.BV(new(big.Int).SetUint64(bits), 32))
	}
	bits := float64bits(f)
	return o.App("(_ to_fp 11 53)", FPSort(11, 53), o.BV(new(big.Int).SetUint64(bits), 64))
}

func (x *Exec) intToFloat(v *Term, from IntTy, e, s int) *Term {
	o := x.o
	if !o.M.BV {
		x.fail("integer -> float conversion needs `mode bv`")
	}
	rm := o.App("RNE", &Sort{Kind: SRM})
	if from.Signed {
		return o.App(fmt.Sprintf("(_ to_fp %d %d)", e, s), FPSort(e, s), rm, v)
	}
	return o.App(fmt.Sprintf("(_ to_fp_unsigned %d %d)", e, s), FPSort(e, s), rm, v)
}

// floatToInt: Go conversion float -> integer as compiled for GOARCH=amd64.
// In range: truncation toward zero. Out of range or NaN: the "integer indefinite" value
// 0x8000000000000000 (then truncated to narrower types). For uint64 the compiler emits the
// two-range sequence: v < 2^63 ? cvttsd2si(v) : cvttsd2si(v - 2^63) ^ 0x8000000000000000.
func (x *Exec) floatToInt(v *Term, to IntTy) *Term {
	o := x.o
	if !o.M.BV {
		x.fail("float -> integer conversion needs `mode bv`")
	}
	rtz := o.App("RTZ", &Sort{Kind: SRM})
	e, s := v.Sort.E, v.Sort.S
	two63 := x.floatConst(9223372036854775808.0, e, s)
	indefinite := o.BV(new(big.Int).Lsh(big.NewInt(1), 63), 64)
	cvt := func(f *Term) *Term { // CVTTSD2SQ
		inRange := o.And(o.Not(o.App("fp.isNaN", BoolSort, f)),
			o.App("fp.lt", BoolSort, f, two63),
			o.App("fp.geq", BoolSort, f, o.App("fp.neg", f.Sort, two63)))
		return o.Ite(inRange, o.App("(_ fp.to_sbv 64)", BVSort(64), rtz, f), indefinite)
	}
	var r64 *Term
	if to.W == 64 && !to.Signed {
		// v < 2^63 (or NaN): CVTTSD2SQ(v). Otherwise CVTTSD2SQ(v - 2^63) ^ 2^63: for 2^63 <= v < 2^64 the subtraction is
		// exact (v is a multiple of 2^11, resp. 2^40), giving the exact integer; for v >= 2^64 and +Inf it gives 0.
		// (for 0 <= v < 2^63 the signed and the unsigned truncation coincide; the unsigned one is used there too)
		two64 := x.floatConst(18446744073709551616.0, e, s)
		zero := x.floatConst(0, e, s)
		neg := o.Or(o.App("fp.isNaN", BoolSort, v), o.App("fp.lt", BoolSort, v, zero))
		nonneg := o.Ite(o.App("fp.lt", BoolSort, v, two64), o.App("(_ fp.to_ubv 64)", BVSort(64), rtz, v), o.BVi(0, 64))
		r64 = o.Ite(neg, cvt(v), nonneg)
	} else {
		r64 = cvt(v)
	}
	if to.W == 64 {
		return r64
	}
	if to.W == 32 && to.Signed {
		// CVTTSD2SL: 32-bit indefinite
		inRange := o.And(o.Not(o.App("fp.isNaN", BoolSort, v)),
			o.App("fp.lt", BoolSort, v, x.floatConst(2147483648.0, e, s)),
			o.App("fp.gt", BoolSort, v, x.floatConst(-2147483649.0, e, s)))
		return o.Ite(inRange, o.App("(_ fp.to_sbv 32)", BVSort(32), rtz, v), o.BV(new(big.Int).Lsh(big.NewInt(1), 31), 32))
	}
	return o.Extract(to.W-1, 0, r64)
}

func float64bits(f float64) uint64 { return mathFloat64bits(f) }
func float32bits(f float32) uint32 { return mathFloat32bits(f) }

// ---- interfaces ------------------------------------------------------------------------------------------------

func errTypeKey(t types.Type) string {
	return shortTypeNoPkg(t)
}

func shortTypeNoPkg(t types.Type) string {
	s := types.TypeString(t, func(p *types.Package) string {
		if strings.HasPrefix(p.Path(), modulePath) {
			return p.Name()
		}
		return p.Name()
	})
	return strings.ReplaceAll(s, "[]uint8", "[]byte")
}

func implementsError(t types.Type) bool {
	et := types.Universe.Lookup("error").Type().Underlying().(*types.Interface)
	return types.Implements(t, et)
}

func (x *Exec) makeInterface(st *State, v Val, from, to types.Type) Val {
	o := x.o
	if isErrorType(to) || (implementsError(from) && implementsError(to)) {
		return x.errFromConcrete(st, v, from)
	}
	id := x.typeID(from)
	return IfaceVal{Tag: o.Int(int64(id)), Pay: map[int]Val{id: v}}
}

// errFromConcrete builds the error abstraction for a concrete error value.
func (x *Exec) errFromConcrete(st *State, v Val, from types.Type) Val {
	o := x.o
	ev := ErrVal{Nil: o.False(), Is: map[string]*Term{}, As: map[string]*Term{}, Data: map[string]*Term{}}
	key := errTypeKey(from)
	ev.As[key] = o.True()
	elem := from
	val := v
	if pt, ok := from.Underlying().(*types.Pointer); ok {
		p := v.(PtrVal)
		if !p.Nil.IsFalse() {
			// a typed nil pointer in an error interface is non-nil as an interface; contents unknown
			x.note("typed pointer of type %s converted to error may be nil", from)
		}
		elem = pt.Elem()
		if p.Obj != nil {
			val = x.readPtr(st, p)
		} else {
			val = nil
		}
	}
	if sv, ok := val.(StructVal); ok {
		stt := elem.Underlying().(*types.Struct)
		for i := 0; i < stt.NumFields(); i++ {
			f := stt.Field(i)
			switch {
			case f.Name() == "Err" && isErrorType(f.Type()):
				inner := sv.F[i].(ErrVal)
				for _, k := range sortedTermKeys(inner.Is) {
					t := inner.Is[k]
					ev.Is[k] = o.And(o.Not(inner.Nil), t)
				}
				for _, k := range sortedTermKeys(inner.As) {
					t := inner.As[k]
					if _, dup := ev.As[k]; !dup {
						ev.As[k] = o.And(o.Not(inner.Nil), t)
					}
				}
				ev.Data["wrapsNil"] = inner.Nil
				if og, ok := inner.Data["origin"]; ok {
					ev.Data["origin"] = o.Ite(inner.Nil, o.ConstI(tyInt, -1), og)
				}
			case f.Name() == "Input":
				ev.Data["inputLen"] = x.lenOf(sv.F[i])
			}
		}
	} else if t, ok := val.(*Term); ok {
		if ity, ok := intTyOf(elem); ok && ity == tyByte {
			ev.Data["digit"] = t
		}
	}
	if _, ok := ev.Data["inputLen"]; !ok {
		ev.Data["inputLen"] = o.ConstI(tyInt, -1)
	}
	return ev
}

func (x *Exec) changeInterface(st *State, v Val, from, to types.Type) Val {
	return v
}

func (x *Exec) typeAssert(st *State, t *ssa.TypeAssert) Val {
	o := x.o
	v := x.operand(st, t.X)
	switch iv := v.(type) {
	case IfaceVal:
		if _, isIface := t.AssertedType.Underlying().(*types.Interface); isIface {
			return x.assertToInterface(st, t, iv)
		}
		id := x.typeID(t.AssertedType)
		ok := o.Eq(iv.Tag, o.Int(int64(id)))
		pay, have := iv.Pay[id]
		if !have {
			if iv.Sym != "" {
				pay = x.freshVal(fmt.Sprintf("%s.as%d", iv.Sym, id), t.AssertedType)
				iv.Pay[id] = pay
			} else {
				pay = x.zeroVal(t.AssertedType)
			}
		}
		if t.CommaOk {
			return TupleVal{x.iteVal(ok, pay, x.zeroVal(t.AssertedType)), ok}
		}
		x.oblige("typeassert", "", []string{"C18.nopanic"}, "dynamic type is "+t.AssertedType.String(), st.Guard, ok)
		return pay
	case ErrVal:
		x.fail("type assertion on error value")
	}
	x.fail("TypeAssert on %T", v)
	return nil
}

func (x *Exec) note(f string, a ...any) {
	x.notes = append(x.notes, fmt.Sprintf(f, a...))
}

// errSame: two error values agree in every modelled component (nil-ness, errors.Is / errors.As answers, payload).
func (x *Exec) errSame(av, bv ErrVal) *Term {
	o := x.o
	cs := []*Term{o.Eq(av.Nil, bv.Nil)}
	for _, pair := range []struct{ m1, m2 map[string]*Term }{{av.Is, bv.Is}, {av.As, bv.As}, {av.Data, bv.Data}} {
		keys := make([]string, 0, len(pair.m1))
		for k := range pair.m1 {
			keys = append(keys, k)
		}
		sort.Strings(keys)
		for _, k := range keys {
			if w, ok := pair.m2[k]; ok {
				cs = append(cs, o.Eq(pair.m1[k], w))
			}
		}
	}
	return o.And(cs...)
}
