package main

import "sort"

// Ground instantiation of universally quantified hypotheses at the array indices that occur in the query.
// Every added formula is an instance of an asserted universal, so adding it is sound; it spares the solvers
// the E-matching modulo arithmetic that they are poor at (select(A, base+i) against select(A, idx)).

type qpat struct {
	arr  *Term // array term (ground)
	base *Term // index = base + bound   (base ground; nil means index is the bound variable itself)
}

// quantParts: assumption of the form [guard =>] (and ... (forall (i) body) ...) -> list of (guard, forall term)
func quantParts(t *Term, c *TermCtx) [](struct{ guard, q *Term }) {
	var out [](struct{ guard, q *Term })
	var walk func(g, u *Term)
	walk = func(g, u *Term) {
		switch u.Op {
		case "forall":
			if len(u.Bound) == 1 {
				out = append(out, struct{ guard, q *Term }{g, u})
			}
		case "and":
			for _, a := range u.Args {
				walk(g, a)
			}
		case "=>":
			walk(c.And(g, u.Args[0]), u.Args[1])
		}
	}
	walk(c.True(), t)
	return out
}

func containsTerm(t, x *Term) bool { return occurs(x, t) }

// patternsOf finds select(A, base+bv) / select(A, bv) patterns in a quantifier body.
func patternsOf(body, bv *Term) []qpat {
	var ps []qpat
	seen := map[*Term]bool{}
	var walk func(u *Term)
	walk = func(u *Term) {
		if seen[u] {
			return
		}
		seen[u] = true
		if u.Op == "select" {
			arr, idx := u.Args[0], u.Args[1]
			if !containsTerm(arr, bv) {
				if idx == bv {
					ps = append(ps, qpat{arr, nil})
				} else if idx.Op == "+" && len(idx.Args) == 2 {
					if idx.Args[1] == bv && !containsTerm(idx.Args[0], bv) {
						ps = append(ps, qpat{arr, idx.Args[0]})
					} else if idx.Args[0] == bv && !containsTerm(idx.Args[1], bv) {
						ps = append(ps, qpat{arr, idx.Args[1]})
					}
				}
			}
		}
		for _, a := range u.Args {
			walk(a)
		}
	}
	walk(body)
	return ps
}

func groundSelects(ts []*Term, into map[*Term]map[*Term]bool) {
	seen := map[*Term]bool{}
	var walk func(u *Term, underQ bool)
	walk = func(u *Term, underQ bool) {
		if u.Op == "forall" || u.Op == "exists" {
			return
		}
		if seen[u] {
			return
		}
		seen[u] = true
		if u.Op == "select" && u.Args[0].Sort.Elem.Kind != SArray {
			m := into[u.Args[0]]
			if m == nil {
				m = map[*Term]bool{}
				into[u.Args[0]] = m
			}
			m[u.Args[1]] = true
		}
		for _, a := range u.Args {
			walk(a, underQ)
		}
	}
	for _, t := range ts {
		walk(t, false)
	}
}

// instantiate returns instances of the quantified hypotheses at the ground indices of the query (a few rounds).
func (x *Exec) instantiate(as []*Term, goal *Term) []*Term {
	o := x.o
	var out []*Term
	done := map[[2]*Term]bool{}
	pool := append([]*Term{goal}, as...)
	for round := 0; round < 3 && len(out) < 400; round++ {
		sel := map[*Term]map[*Term]bool{}
		groundSelects(pool, sel)
		var added []*Term
		for _, a := range as {
			for _, qp := range quantParts(a, o.TermCtx) {
				bv := qp.q.Bound[0]
				body := qp.q.Args[0]
				for _, p := range patternsOf(body, bv) {
					idxs := make([]*Term, 0, len(sel[p.arr]))
					for idx := range sel[p.arr] {
						idxs = append(idxs, idx)
					}
					sort.Slice(idxs, func(i, j int) bool { return idxs[i].id < idxs[j].id }) // deterministic scripts
					for _, idx := range idxs {
						if containsBound(idx) {
							continue
						}
						inst := idx
						if p.base != nil {
							inst = o.Sub(idx, p.base)
						}
						key := [2]*Term{qp.q, inst}
						if done[key] {
							continue
						}
						done[key] = true
						f := o.Implies(qp.guard, o.Subst(body, map[*Term]*Term{bv: inst}))
						if !f.IsTrue() {
							added = append(added, f)
						}
						if len(out)+len(added) >= 400 {
							break
						}
					}
				}
			}
		}
		if len(added) == 0 {
			break
		}
		out = append(out, added...)
		pool = added
	}
	return out
}

func containsBound(t *Term) bool {
	seen := map[*Term]bool{}
	var rec func(u *Term) bool
	rec = func(u *Term) bool {
		if u.Op == "bvar" {
			return true
		}
		if seen[u] {
			return false
		}
		seen[u] = true
		for _, a := range u.Args {
			if rec(a) {
				return true
			}
		}
		return false
	}
	return rec(t)
}
