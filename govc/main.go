package main

import (
	"runtime/debug"
	"runtime/pprof"
	"encoding/json"
	"flag"
	"fmt"
	"os"
	"path/filepath"
	"runtime"
	"sort"
	"strings"
	"time"
)

func main() {
	if len(os.Args) < 2 {
		fmt.Fprintln(os.Stderr, "usage: govc <func|check|list> ...")
		os.Exit(2)
	}
	defer cleanupScratch()
	if os.Getenv("GOGC") == "" {
		// the term graph is large and long-lived while script printing produces much short-lived garbage: collecting
		// less often cuts the run time by more than half
		debug.SetGCPercent(400)
	}
	if pf := os.Getenv("GOVC_CPUPROFILE"); pf != "" {
		if f, err := os.Create(pf); err == nil {
			pprof.StartCPUProfile(f)
			defer pprof.StopCPUProfile()
		}
	}
	switch os.Args[1] {
	case "func":
		cmdFunc(os.Args[2:])
	case "check":
		rc := cmdCheck(os.Args[2:])
		pprof.StopCPUProfile()
		cleanupScratch()
		os.Exit(rc)
	case "list":
		cmdList(os.Args[2:])
	case "names":
		cmdNames(os.Args[2:])
	case "replay":
		os.Exit(cmdReplay(os.Args[2:]))
	default:
		fmt.Fprintln(os.Stderr, "unknown command", os.Args[1])
		os.Exit(2)
	}
}

func loadOrDie(repo string) *World {
	t0 := time.Now()
	w, err := LoadWorld(repo)
	if err != nil {
		fmt.Fprintln(os.Stderr, "govc: load:", err)
		cleanupScratch()
		os.Exit(3)
	}
	w.computeUniverses()
	w.loadNames(namesFile())
	theWorld = w
	fmt.Fprintf(os.Stderr, "govc: loaded %d packages in %.1fs\n", len(w.Pkgs), time.Since(t0).Seconds())
	return w
}

func cmdList(args []string) {
	fs := flag.NewFlagSet("list", flag.ExitOnError)
	repo := fs.String("repo", "/repo", "repository")
	fs.Parse(args)
	w := loadOrDie(*repo)
	for _, e := range w.CheckContractsResolve() {
		fmt.Println("ERROR", e)
	}
	for _, t := range w.Targets() {
		fmt.Printf("%-50s mode=%s ensures=%d requires=%d\n", InstName(t.Fn), t.Fc.Mode, len(t.Fc.Ensures), len(t.Fc.Requires))
	}
	fmt.Println("sentinels:", strings.Join(w.Sentinels, " "))
	fmt.Println("error types:", strings.Join(w.ErrTypes, " "))
}

// cmdFunc: verify selected functions and print every obligation (debugging aid).
func cmdFunc(args []string) {
	fs := flag.NewFlagSet("func", flag.ExitOnError)
	repo := fs.String("repo", "/repo", "repository")
	pkg := fs.String("pkg", "", "package name")
	fnName := fs.String("fn", "", "function contract key (substring of instance name)")
	timeout := fs.Int("timeout", 10, "solver timeout (s)")
	dump := fs.String("dump", "", "directory for SMT scripts of non-discharged obligations")
	verbose := fs.Bool("v", false, "print all obligations")
	dumpName := fs.String("dumpname", "", "dump obligations whose name contains this")
	fs.Parse(args)
	w := loadOrDie(*repo)
	for _, e := range w.CheckContractsResolve() {
		fmt.Println("ERROR", e)
	}
	bad := 0
	for _, pk := range w.Pkgs {
		if *pkg != "" && pk.Name != *pkg {
			continue
		}
		lo := w.LangObligations(pk)
		if len(lo) == 0 || (*fnName != "" && *fnName != "lang") {
			continue
		}
		SolveAll(lo, *timeout, 4, false)
		for _, ob := range lo {
			fmt.Printf("== %s: %s %s %.2fs %s\n", ob.Name, ob.Result.Status, ob.Result.Solver, ob.Result.Seconds, truncate(strings.ReplaceAll(ob.Result.Output, "\n", " "), 200))
			if ob.Result.Status != "unsat" {
				bad++
			}
		}
	}
	for _, t := range w.Targets() {
		if *pkg != "" && t.Pk.Name != *pkg {
			continue
		}
		if *fnName != "" && !strings.Contains(InstName(t.Fn), *fnName) {
			continue
		}
		t0 := time.Now()
		r := w.VerifyFunction(t.Pk, t.Fn, t.Fc)
		gen := time.Since(t0).Seconds()
		if *dumpName != "" {
			dumpObligation(r, *dumpName, *dump)
			continue
		}
		SolveAll(r.Obls, *timeout, runtime.NumCPU(), *dump != "")
		nd := 0
		for _, ob := range r.Obls {
			if okResult(ob) {
				nd++
			}
		}
		status := "ok"
		if r.Err != "" {
			status = "ERROR: " + r.Err
			bad++
		} else if nd != len(r.Obls) {
			status = "FAILED"
			bad++
		}
		fmt.Printf("== %s [%s] %d/%d obligations, gen %.2fs total %.2fs: %s\n", r.Name, r.Mode, nd, len(r.Obls), gen, time.Since(t0).Seconds(), status)
		for _, n := range r.Notes {
			fmt.Println("   note:", n)
		}
		for i, ob := range r.Obls {
			ok := okResult(ob)
			if ok && !*verbose {
				continue
			}
			fmt.Printf("   %-8s %-70s %s %.2fs %v\n", ob.Result.Status, ob.Name, ob.Result.Solver, ob.Result.Seconds, ob.Result.Tried)
			if !ok {
				fmt.Printf("            clause: %s   (%s)\n", ob.Text, ob.Pos)
				if ob.Result.Status == "sat" {
					fmt.Printf("            model: %s\n", renderModel(ob.Result.Model))
				}
				if *dump != "" {
					os.MkdirAll(*dump, 0o755)
					os.WriteFile(filepath.Join(*dump, fmt.Sprintf("%s_%d.smt2", sanitize(r.Name), i)), []byte(ob.Script(true)), 0o644)
				}
			}
		}
	}
	if bad > 0 {
		cleanupScratch()
		os.Exit(1)
	}
}

func okResult(ob *Obligation) bool {
	if ob.Result == nil {
		return false
	}
	if ob.Cover {
		// a cover query guards against vacuity: only a proof of unreachability (unsat) is a failure
		return ob.Result.Status != "unsat" && ob.Result.Status != "error"
	}
	return ob.Result.Status == "unsat"
}


// renderModel prints a counterexample compactly: byte sequences as quoted strings.
func renderModel(m map[string]string) string {
	seqs := map[string]map[int]int{}
	lens := map[string]int{}
	var scal []string
	for k, v := range m {
		if i := strings.LastIndex(k, "["); i > 0 && strings.HasSuffix(k, "]") {
			var idx int
			fmt.Sscanf(k[i+1:], "%d", &idx)
			if seqs[k[:i]] == nil {
				seqs[k[:i]] = map[int]int{}
			}
			n, _ := smtInt(v)
			seqs[k[:i]][idx] = int(n.Int64())
			continue
		}
		if strings.HasSuffix(k, ".len") {
			n, _ := smtInt(v)
			lens[strings.TrimSuffix(k, ".len")] = int(n.Int64())
		}
		n, ok := smtInt(v)
		if ok {
			scal = append(scal, fmt.Sprintf("%s=%s", k, n.String()))
		} else {
			scal = append(scal, fmt.Sprintf("%s=%s", k, v))
		}
	}
	sort.Strings(scal)
	var out []string
	var names []string
	for n := range seqs {
		names = append(names, n)
	}
	sort.Strings(names)
	for _, n := range names {
		l := lens[n]
		if l > modelBytes {
			l = modelBytes
		}
		b := make([]byte, 0, l)
		for i := 0; i < l; i++ {
			b = append(b, byte(seqs[n][i]))
		}
		out = append(out, fmt.Sprintf("%s=%q", n, string(b)))
	}
	return strings.Join(append(out, scal...), " ")
}

// dumpObligation writes the script of the named obligation (debugging).
func dumpObligation(r *FuncResult, name, dir string) {
	for _, ob := range r.Obls {
		if strings.Contains(ob.Name, name) {
			os.MkdirAll(dir, 0o755)
			os.WriteFile(filepath.Join(dir, sanitize(ob.Name)+".smt2"), []byte(ob.Script(true)), 0o644)
		}
	}
}

// cmdReplay re-runs the Go test recorded in a replay file against /repo and prints what the real code does.
func cmdReplay(args []string) int {
	if len(args) < 1 {
		fmt.Fprintln(os.Stderr, "usage: govc replay <replay.json> [repo]")
		return 2
	}
	repo := "/repo"
	if len(args) > 1 {
		repo = args[1]
	}
	data, err := os.ReadFile(args[0])
	if err != nil {
		fmt.Fprintln(os.Stderr, err)
		return 2
	}
	var rec struct {
		Obligation string `json:"obligation"`
		Clause     string `json:"clause"`
		Function   string `json:"function"`
		Replay     *struct {
			Confirmed bool   `json:"confirmed"`
			Note      string `json:"note"`
			TestFile  string `json:"test_file"`
			Package   string `json:"package"`
		} `json:"replay"`
	}
	if err := json.Unmarshal(data, &rec); err != nil {
		fmt.Fprintln(os.Stderr, err)
		return 2
	}
	fmt.Printf("obligation: %s\nclause: %s\n", rec.Obligation, rec.Clause)
	if rec.Replay == nil || rec.Replay.TestFile == "" {
		fmt.Println("no replayable input recorded (no-failing-input-found)")
		return 1
	}
	out, err := runReplayTest(repo, rec.Replay.Package, rec.Replay.TestFile)
	fmt.Println(out)
	fmt.Println("recorded verdict:", rec.Replay.Note)
	if err != nil {
		return 2
	}
	return 1
}

// namesFile: /verif/names.json beside the binary's parent directory (bin/govc -> ../names.json), or $GOVC_NAMES.
func namesFile() string {
	if p := os.Getenv("GOVC_NAMES"); p != "" {
		return p
	}
	return "/verif/names.json"
}

var theWorld *World
