package main

// Interval tracking for Int-sorted terms (used to omit wrap-arounds that cannot happen and to simplify
// truncated division) and "side facts": range facts about leaf terms (typed parameters, bytes read from
// byte arrays) that are added to every query in which the term occurs.

import "math/big"

type ival struct{ lo, hi *big.Int } // nil = unbounded on that side

func (c *TermCtx) initBounds() {
	if c.bmemo == nil {
		c.bmemo = map[*Term]ival{}
		c.ranges = map[*Term]ival{}
	}
}

// SetRange records that t is known (by typing) to lie in [lo,hi]; the fact is asserted in every query using t.
func (c *TermCtx) SetRange(t *Term, lo, hi *big.Int) {
	c.initBounds()
	if t.Sort.Kind != SInt || t.IsConst() {
		return
	}
	c.ranges[t] = ival{lo, hi}
}

func (c *TermCtx) SetRange64(t *Term, lo, hi int64) {
	c.SetRange(t, big.NewInt(lo), big.NewInt(hi))
}

func minB(a, b *big.Int) *big.Int {
	if a == nil || b == nil {
		return nil
	}
	if a.Cmp(b) < 0 {
		return a
	}
	return b
}
func maxB(a, b *big.Int) *big.Int {
	if a == nil || b == nil {
		return nil
	}
	if a.Cmp(b) > 0 {
		return a
	}
	return b
}
func addB(a, b *big.Int) *big.Int {
	if a == nil || b == nil {
		return nil
	}
	return new(big.Int).Add(a, b)
}
func subB(a, b *big.Int) *big.Int {
	if a == nil || b == nil {
		return nil
	}
	return new(big.Int).Sub(a, b)
}

func (c *TermCtx) Bounds(t *Term) ival {
	c.initBounds()
	if t.Sort.Kind != SInt {
		return ival{}
	}
	if r, ok := c.bmemo[t]; ok {
		return r
	}
	r := c.bounds1(t)
	if e, ok := c.ranges[t]; ok {
		// intersect
		if r.lo == nil || (e.lo != nil && e.lo.Cmp(r.lo) > 0) {
			r.lo = e.lo
		}
		if r.hi == nil || (e.hi != nil && e.hi.Cmp(r.hi) < 0) {
			r.hi = e.hi
		}
	}
	c.bmemo[t] = r
	return r
}

func (c *TermCtx) bounds1(t *Term) ival {
	switch t.Op {
	case "const":
		return ival{t.IVal, t.IVal}
	case "+":
		a, b := c.Bounds(t.Args[0]), c.Bounds(t.Args[1])
		return ival{addB(a.lo, b.lo), addB(a.hi, b.hi)}
	case "-":
		a, b := c.Bounds(t.Args[0]), c.Bounds(t.Args[1])
		return ival{subB(a.lo, b.hi), subB(a.hi, b.lo)}
	case "*":
		a, b := c.Bounds(t.Args[0]), c.Bounds(t.Args[1])
		if a.lo != nil && a.hi != nil && b.lo != nil && b.hi != nil {
			ps := []*big.Int{
				new(big.Int).Mul(a.lo, b.lo), new(big.Int).Mul(a.lo, b.hi),
				new(big.Int).Mul(a.hi, b.lo), new(big.Int).Mul(a.hi, b.hi),
			}
			lo, hi := ps[0], ps[0]
			for _, p := range ps[1:] {
				lo, hi = minB(lo, p), maxB(hi, p)
			}
			return ival{lo, hi}
		}
		// const * nonneg-unbounded
		if t.Args[0].IsConst() && t.Args[0].IVal.Sign() >= 0 && b.lo != nil && b.lo.Sign() >= 0 {
			return ival{new(big.Int).Mul(t.Args[0].IVal, b.lo), nil}
		}
	case "mod":
		if t.Args[1].IsConst() && t.Args[1].IVal.Sign() > 0 {
			m := t.Args[1].IVal
			a := c.Bounds(t.Args[0])
			if a.lo != nil && a.hi != nil && a.lo.Sign() >= 0 && a.hi.Cmp(m) < 0 {
				return a
			}
			return ival{big.NewInt(0), new(big.Int).Sub(m, big.NewInt(1))}
		}
	case "div":
		if t.Args[1].IsConst() && t.Args[1].IVal.Sign() > 0 {
			m := t.Args[1].IVal
			a := c.Bounds(t.Args[0])
			var lo, hi *big.Int
			if a.lo != nil {
				lo, _ = floorDivMod(a.lo, m)
			}
			if a.hi != nil {
				hi, _ = floorDivMod(a.hi, m)
			}
			return ival{lo, hi}
		}
	case "ite":
		a, b := c.Bounds(t.Args[1]), c.Bounds(t.Args[2])
		return ival{minB(a.lo, b.lo), maxB(a.hi, b.hi)}
	}
	return ival{}
}

func (c *TermCtx) KnownNonNeg(t *Term) bool {
	b := c.Bounds(t)
	return b.lo != nil && b.lo.Sign() >= 0
}

func (c *TermCtx) KnownWithin(t *Term, lo, hi *big.Int) bool {
	b := c.Bounds(t)
	return b.lo != nil && b.hi != nil && b.lo.Cmp(lo) >= 0 && b.hi.Cmp(hi) <= 0
}

// rangeFact returns the assertion for a term with a recorded range.
func (c *TermCtx) rangeFact(t *Term) *Term {
	r, ok := c.ranges[t]
	if !ok {
		return nil
	}
	var cs []*Term
	if r.lo != nil {
		cs = append(cs, c.mk("<=", BoolSort, "", nil, c.IntBig(r.lo), t))
	}
	if r.hi != nil {
		cs = append(cs, c.mk("<=", BoolSort, "", nil, t, c.IntBig(r.hi)))
	}
	return c.And(cs...)
}
