package main

// Go integer semantics in the two encodings ("int": SMT Int with exact wrap-around; "bv": bit vectors).

import (
	"fmt"
	"go/token"
	"go/types"
	"math/big"
)

const tokLEQ = token.LEQ

type Mode struct{ BV bool }

func (m Mode) String() string {
	if m.BV {
		return "bv"
	}
	return "int"
}

type IntTy struct {
	W      int
	Signed bool
}

func (t IntTy) Min() *big.Int {
	if !t.Signed {
		return big.NewInt(0)
	}
	return new(big.Int).Neg(new(big.Int).Lsh(big.NewInt(1), uint(t.W-1)))
}
func (t IntTy) Max() *big.Int {
	if !t.Signed {
		return new(big.Int).Sub(new(big.Int).Lsh(big.NewInt(1), uint(t.W)), big.NewInt(1))
	}
	return new(big.Int).Sub(new(big.Int).Lsh(big.NewInt(1), uint(t.W-1)), big.NewInt(1))
}

var (
	tyInt    = IntTy{64, true}
	tyUint64 = IntTy{64, false}
	tyByte   = IntTy{8, false}
	tyInt32  = IntTy{32, true}
)

func intTyOf(t types.Type) (IntTy, bool) {
	b, ok := t.Underlying().(*types.Basic)
	if !ok {
		return IntTy{}, false
	}
	switch b.Kind() {
	case types.Int, types.Int64, types.UntypedInt, types.UntypedRune:
		return IntTy{64, true}, true
	case types.Int8:
		return IntTy{8, true}, true
	case types.Int16:
		return IntTy{16, true}, true
	case types.Int32:
		return IntTy{32, true}, true
	case types.Uint, types.Uint64, types.Uintptr:
		return IntTy{64, false}, true
	case types.Uint8:
		return IntTy{8, false}, true
	case types.Uint16:
		return IntTy{16, false}, true
	case types.Uint32:
		return IntTy{32, false}, true
	}
	return IntTy{}, false
}

func floatTyOf(t types.Type) (e, s int, ok bool) {
	b, isB := t.Underlying().(*types.Basic)
	if !isB {
		return 0, 0, false
	}
	switch b.Kind() {
	case types.Float32:
		return 8, 24, true
	case types.Float64, types.UntypedFloat:
		return 11, 53, true
	}
	return 0, 0, false
}

func isBoolType(t types.Type) bool {
	b, ok := t.Underlying().(*types.Basic)
	return ok && b.Info()&types.IsBoolean != 0
}

func isStringType(t types.Type) bool {
	b, ok := t.Underlying().(*types.Basic)
	return ok && b.Info()&types.IsString != 0
}

// Ops bundles a term context with an encoding mode.
type Ops struct {
	*TermCtx
	M Mode
}

func (o *Ops) IntSortOf(t IntTy) *Sort {
	if o.M.BV {
		return BVSort(t.W)
	}
	return IntSort
}
func (o *Ops) IdxSort() *Sort   { return o.IntSortOf(tyInt) }
func (o *Ops) ByteSort() *Sort  { return o.IntSortOf(tyByte) }
func (o *Ops) ByteArr() *Sort   { return ArraySort(o.IdxSort(), o.ByteSort()) }
func (o *Ops) HeapSort() *Sort  { return ArraySort(IntSort, o.ByteArr()) }
func (o *Ops) ElemSort(t types.Type) *Sort {
	if it, ok := intTyOf(t); ok {
		return o.IntSortOf(it)
	}
	if isBoolType(t) {
		return BoolSort
	}
	if e, s, ok := floatTyOf(t); ok {
		return FPSort(e, s)
	}
	panic("ElemSort: unsupported element type " + t.String())
}

func (o *Ops) Const(t IntTy, v *big.Int) *Term {
	if o.M.BV {
		return o.BV(v, t.W)
	}
	// normalise into the type's range
	return o.IntBig(normInt(t, v))
}
func (o *Ops) ConstI(t IntTy, v int64) *Term { return o.Const(t, big.NewInt(v)) }
func (o *Ops) Idx(v int64) *Term             { return o.ConstI(tyInt, v) }

func normInt(t IntTy, v *big.Int) *big.Int {
	m := new(big.Int).Lsh(big.NewInt(1), uint(t.W))
	x := new(big.Int).Mod(v, m)
	if t.Signed && x.Cmp(new(big.Int).Lsh(big.NewInt(1), uint(t.W-1))) >= 0 {
		x.Sub(x, m)
	}
	return x
}

// Wrap brings an Int-sorted mathematical value into the range of t (no-op in bv mode).
func (o *Ops) Wrap(t IntTy, x *Term) *Term {
	if o.M.BV {
		return x
	}
	if x.IsConst() {
		return o.IntBig(normInt(t, x.IVal))
	}
	if o.KnownWithin(x, t.Min(), t.Max()) {
		return x
	}
	m := o.IntBig(new(big.Int).Lsh(big.NewInt(1), uint(t.W)))
	if !t.Signed {
		return o.Mod(x, m)
	}
	h := o.IntBig(new(big.Int).Lsh(big.NewInt(1), uint(t.W-1)))
	return o.Sub(o.Mod(o.Add(x, h), m), h)
}

// Arith implements a Go binary arithmetic operator on two operands of integer type t.
// For shifts, b has type bt.
func (o *Ops) Arith(op token.Token, t IntTy, a, b *Term, bt IntTy) (*Term, error) {
	if o.M.BV {
		return o.arithBV(op, t, a, b, bt)
	}
	switch op {
	case token.ADD:
		return o.Wrap(t, o.Add(a, b)), nil
	case token.SUB:
		return o.Wrap(t, o.Sub(a, b)), nil
	case token.MUL:
		return o.Wrap(t, o.Mul(a, b)), nil
	case token.QUO:
		return o.Wrap(t, o.truncDiv(a, b)), nil
	case token.REM:
		return o.truncRem(a, b), nil
	case token.SHL:
		if k, ok := b.ConstInt64(); ok {
			if k >= int64(t.W) {
				return o.Int(0), nil
			}
			return o.Wrap(t, o.Mul(a, o.IntBig(new(big.Int).Lsh(big.NewInt(1), uint(k))))), nil
		}
		return nil, fmt.Errorf("int mode: shift left by non-constant")
	case token.SHR:
		if k, ok := b.ConstInt64(); ok {
			if k >= int64(t.W) {
				if t.Signed {
					return o.Ite(o.Lt(a, o.Int(0)), o.Int(-1), o.Int(0)), nil
				}
				return o.Int(0), nil
			}
			return o.Div(a, o.IntBig(new(big.Int).Lsh(big.NewInt(1), uint(k)))), nil // floor = arithmetic shift
		}
		return nil, fmt.Errorf("int mode: shift right by non-constant")
	case token.AND:
		if b.IsConst() {
			return o.andMask(t, a, b.IVal), nil
		}
		if a.IsConst() {
			return o.andMask(t, b, a.IVal), nil
		}
		return nil, fmt.Errorf("int mode: & of two non-constants")
	case token.AND_NOT:
		if b.IsConst() {
			m := new(big.Int).Lsh(big.NewInt(1), uint(t.W))
			nb := new(big.Int).Sub(new(big.Int).Sub(m, big.NewInt(1)), new(big.Int).Mod(b.IVal, m))
			return o.andMask(t, a, nb), nil
		}
		return nil, fmt.Errorf("int mode: &^ with non-constant mask")
	case token.OR, token.XOR:
		if a.IsConst() && b.IsConst() {
			m := new(big.Int).Lsh(big.NewInt(1), uint(t.W))
			x, y := new(big.Int).Mod(a.IVal, m), new(big.Int).Mod(b.IVal, m)
			var r *big.Int
			if op == token.OR {
				r = new(big.Int).Or(x, y)
			} else {
				r = new(big.Int).Xor(x, y)
			}
			return o.IntBig(normInt(t, r)), nil
		}
		if a.IsConst() && a.IVal.Sign() == 0 {
			return b, nil
		}
		if b.IsConst() && b.IVal.Sign() == 0 {
			return a, nil
		}
		if op == token.OR {
			// x | k where k is a constant: x + (k &^ x) = x + k - (x & k)
			if b.IsConst() {
				return o.Wrap(t, o.Sub(o.Add(a, b), o.andMask(t, a, b.IVal))), nil
			}
			if a.IsConst() {
				return o.Wrap(t, o.Sub(o.Add(a, b), o.andMask(t, b, a.IVal))), nil
			}
		}
		return nil, fmt.Errorf("int mode: %s of two non-constants", op)
	}
	return nil, fmt.Errorf("unsupported integer operator %s", op)
}

// andMask: x & mask in int mode, by runs of one bits.
func (o *Ops) andMask(t IntTy, x *Term, mask *big.Int) *Term {
	m := new(big.Int).Lsh(big.NewInt(1), uint(t.W))
	mk := new(big.Int).Mod(mask, m) // two's complement view of the mask
	ux := x
	if t.Signed && !o.KnownNonNeg(x) {
		ux = o.Mod(x, o.IntBig(m)) // two's complement view of x
	}
	res := o.Int(0)
	i := 0
	for i < t.W {
		if mk.Bit(i) == 0 {
			i++
			continue
		}
		j := i
		for j < t.W && mk.Bit(j) == 1 {
			j++
		}
		// bits [i,j)
		part := ux
		if i > 0 {
			part = o.Div(part, o.IntBig(new(big.Int).Lsh(big.NewInt(1), uint(i))))
		}
		if j < t.W || !o.KnownWithin(ux, big.NewInt(0), new(big.Int).Sub(m, big.NewInt(1))) {
			part = o.Mod(part, o.IntBig(new(big.Int).Lsh(big.NewInt(1), uint(j-i))))
		}
		if i > 0 {
			part = o.Mul(part, o.IntBig(new(big.Int).Lsh(big.NewInt(1), uint(i))))
		}
		res = o.Add(res, part)
		i = j
	}
	if t.Signed {
		return o.Wrap(t, res)
	}
	return res
}

func (o *Ops) truncDiv(a, b *Term) *Term {
	if o.KnownNonNeg(a) && o.KnownNonNeg(b) {
		return o.Div(a, b)
	}
	if b.IsConst() && b.IVal.Sign() > 0 {
		// a / k truncated toward zero
		return o.Ite(o.Ge(a, o.Int(0)), o.Div(a, b), o.Neg(o.Div(o.Neg(a), b)))
	}
	abs := func(x *Term) *Term { return o.Ite(o.Ge(x, o.Int(0)), x, o.Neg(x)) }
	q := o.Div(abs(a), abs(b))
	neg := o.Neq(o.Lt(a, o.Int(0)), o.Lt(b, o.Int(0)))
	return o.Ite(neg, o.Neg(q), q)
}

func (o *Ops) truncRem(a, b *Term) *Term {
	if o.KnownNonNeg(a) && o.KnownNonNeg(b) {
		return o.Mod(a, b)
	}
	if b.IsConst() && b.IVal.Sign() > 0 {
		return o.Ite(o.Ge(a, o.Int(0)), o.Mod(a, b), o.Neg(o.Mod(o.Neg(a), b)))
	}
	abs := func(x *Term) *Term { return o.Ite(o.Ge(x, o.Int(0)), x, o.Neg(x)) }
	r := o.Mod(abs(a), abs(b))
	return o.Ite(o.Lt(a, o.Int(0)), o.Neg(r), r)
}

func (o *Ops) arithBV(op token.Token, t IntTy, a, b *Term, bt IntTy) (*Term, error) {
	switch op {
	case token.ADD:
		return o.BVOp("bvadd", a, b), nil
	case token.SUB:
		return o.BVOp("bvsub", a, b), nil
	case token.MUL:
		return o.BVOp("bvmul", a, b), nil
	case token.QUO:
		if t.Signed {
			return o.BVOp("bvsdiv", a, b), nil
		}
		return o.BVOp("bvudiv", a, b), nil
	case token.REM:
		if t.Signed {
			return o.BVOp("bvsrem", a, b), nil
		}
		return o.BVOp("bvurem", a, b), nil
	case token.AND:
		return o.BVOp("bvand", a, b), nil
	case token.OR:
		return o.BVOp("bvor", a, b), nil
	case token.XOR:
		return o.BVOp("bvxor", a, b), nil
	case token.AND_NOT:
		return o.BVOp("bvand", a, o.BVNot(b)), nil
	case token.SHL, token.SHR:
		// bring the count to the operand width; counts >= width saturate
		cnt := b
		var big_ *Term = o.False()
		if bt.W > t.W {
			big_ = o.BVCmp("bvuge", b, o.BVi(int64(t.W), bt.W))
			cnt = o.Extract(t.W-1, 0, b)
		} else if bt.W < t.W {
			cnt = o.ZeroExt(t.W-bt.W, b)
		}
		var r *Term
		switch {
		case op == token.SHL:
			r = o.BVOp("bvshl", a, cnt)
			return o.Ite(big_, o.BVi(0, t.W), r), nil
		case t.Signed:
			r = o.BVOp("bvashr", a, cnt)
			return o.Ite(big_, o.BVOp("bvashr", a, o.BVi(int64(t.W-1), t.W)), r), nil
		default:
			r = o.BVOp("bvlshr", a, cnt)
			return o.Ite(big_, o.BVi(0, t.W), r), nil
		}
	}
	return nil, fmt.Errorf("unsupported integer operator %s", op)
}

func (o *Ops) Cmp(op token.Token, t IntTy, a, b *Term) *Term {
	switch op {
	case token.EQL:
		return o.Eq(a, b)
	case token.NEQ:
		return o.Neq(a, b)
	}
	if !o.M.BV {
		switch op {
		case token.LSS:
			return o.Lt(a, b)
		case token.LEQ:
			return o.Le(a, b)
		case token.GTR:
			return o.Gt(a, b)
		case token.GEQ:
			return o.Ge(a, b)
		}
	}
	p := "bvu"
	if t.Signed {
		p = "bvs"
	}
	switch op {
	case token.LSS:
		return o.BVCmp(p+"lt", a, b)
	case token.LEQ:
		return o.BVCmp(p+"le", a, b)
	case token.GTR:
		return o.BVCmp(p+"gt", a, b)
	case token.GEQ:
		return o.BVCmp(p+"ge", a, b)
	}
	panic("Cmp: bad operator " + op.String())
}

func (o *Ops) NegInt(t IntTy, a *Term) *Term {
	if o.M.BV {
		return o.Neg(a)
	}
	return o.Wrap(t, o.Neg(a))
}

func (o *Ops) NotInt(t IntTy, a *Term) *Term { // ^x
	if o.M.BV {
		return o.BVNot(a)
	}
	// ^x = -x-1 (signed), 2^w-1-x (unsigned)
	if t.Signed {
		return o.Sub(o.Neg(a), o.Int(1))
	}
	return o.Sub(o.IntBig(t.Max()), a)
}

// ConvInt converts an integer value of type from to type to.
func (o *Ops) ConvInt(from, to IntTy, a *Term) *Term {
	if !o.M.BV {
		return o.Wrap(to, a)
	}
	switch {
	case to.W == from.W:
		return a
	case to.W < from.W:
		return o.Extract(to.W-1, 0, a)
	case from.Signed:
		return o.SignExt(to.W-from.W, a)
	default:
		return o.ZeroExt(to.W-from.W, a)
	}
}

// Typed declares a fresh symbolic integer of Go type t (with its range fact in int mode).
func (o *Ops) TypedVar(name string, t IntTy) *Term {
	v := o.Var(name, o.IntSortOf(t))
	if !o.M.BV {
		o.SetRange(v, t.Min(), t.Max())
	}
	return v
}

func (o *Ops) TypedFresh(prefix string, t IntTy) *Term {
	v := o.Fresh(prefix, o.IntSortOf(t))
	if !o.M.BV {
		o.SetRange(v, t.Min(), t.Max())
	}
	return v
}

// SelByte reads element i of a byte array (with the byte range fact in int mode).
func (o *Ops) SelByte(arr, i *Term) *Term {
	s := o.Select(arr, i)
	if !o.M.BV && s.Op == "select" {
		o.SetRange64(s, 0, 255)
	}
	return s
}

// LenVar: a fresh/declared length (0 <= n <= MaxInt64)
func (o *Ops) LenVar(name string) *Term {
	v := o.Var(name, o.IdxSort())
	if !o.M.BV {
		o.SetRange(v, big.NewInt(0), tyInt.Max())
	}
	return v
}

func (o *Ops) IdxLt(a, b *Term) *Term { return o.Cmp(token.LSS, tyInt, a, b) }
func (o *Ops) IdxLe(a, b *Term) *Term { return o.Cmp(token.LEQ, tyInt, a, b) }
func (o *Ops) IdxAdd(a, b *Term) *Term {
	// index arithmetic is never allowed to overflow in the memory model: indices are bounded by lengths
	return o.Add(a, b)
}
func (o *Ops) IdxSub(a, b *Term) *Term { return o.Sub(a, b) }
