package main

// Symbolic execution of one SSA function into verification conditions (guarded, merged at joins;
// loops exactly unrolled or cut at an invariant).

import (
	"go/token"
	"fmt"
	"go/types"
	"os"
	"runtime"
	"sort"
	"strings"
	"sync"

	"golang.org/x/tools/go/ssa"
)

type State struct {
	Guard *Term
	Regs  map[ssa.Value]Val
	Cells map[*Object]Val
	H     *Term // byte heap: region -> byte array
	Alloc *Term // next unused region id
	Ghost map[string]Val
}

func (s *State) clone() *State {
	n := &State{Guard: s.Guard, H: s.H, Alloc: s.Alloc}
	n.Regs = make(map[ssa.Value]Val, len(s.Regs)+8)
	for k, v := range s.Regs {
		n.Regs[k] = v
	}
	n.Cells = make(map[*Object]Val, len(s.Cells)+2)
	for k, v := range s.Cells {
		n.Cells[k] = v
	}
	n.Ghost = make(map[string]Val, len(s.Ghost))
	for k, v := range s.Ghost {
		n.Ghost[k] = v
	}
	return n
}

type Obligation struct {
	Name    string
	CandLoop, CandIdx int // obligation of a candidate invariant: loop ordinal and 1 + index into the loop's Invs
	Presolved bool // already decided while candidate invariants were sifted
	Kind    string // ensures, pre, bounds, nil, assert, unwind, inv-init, inv-preserve, frame, div, typeassert, panic, cover, lang
	Tags    []string
	Fn      string
	Text    string
	Pos     string
	NAssume int // how many of the executor's assumptions precede it
	Goal    *Term
	Trivial bool
	Bounded string // non-empty: bounded stand-in, with the bound stated
	x       *Exec
	Discipline bool // discharged by the append-discipline argument (no solver)
	Cover   bool // cover query: expected SAT
	Result  *SolveResult
	RawScript string // language obligations: a complete SMT-LIB script
	CoverTags []string // antecedent covers: the tags of the clause guarded
	SmallLen  int    // > 0: only counterexamples with sequence parameters up to this length are asked for
	RawErr    string
	Clause  *Clause // the contract clause behind an `ensures` obligation (for replay)
	Case    *Term // case-split hypothesis (already part of the goal's guard); used to specialise the query by substitution
}

type ReturnPoint struct {
	St      *State
	Results []Val
}

type Exec struct {
	alwaysKeep map[int]bool // indices of hypotheses the slicer never drops
	puMemo map[[3]*Term][2]*Term
	ibApps map[string][]ibApp
	opaque   map[string]bool
	rootOpts map[string]string // options of the contract of the function being verified
	fnIdx  map[*ssa.Function]int
	valSeq map[ssa.Value]int64
	pureSpecDone map[*Term]bool
	fdDone map[*Term]bool
	puApps []puApp
	recDefined map[string]bool
	quantDepth int
	ghostVals map[string]SVal
	specNilDeref int
	w        *World
	pk       *Pkg
	fn       *ssa.Function
	fc       *FuncContract
	topFc    *FuncContract
	o        *Ops
	assumes  []*Term
	obls     []*Obligation
	nobj     int
	typeIDs  map[string]int
	counters map[string]int
	returns  []*ReturnPoint
	panics   []*Term // guards under which an explicit panic is reached
	entry    *State
	params   map[string]SVal
	tparams  map[string]types.Type
	inlineDepth int
	curPos   string
	errs     []string
	trusted  map[string]bool // trusted schemas used
	inlined  map[string]bool
	callSeq  int
	globals  map[string]Val
	strConst map[string]StrVal
	regexUse map[string]bool
	notes    []string
	gobjs    map[string]*Object
	defers   []deferred
	typeByID map[int]types.Type
	callees  map[string]bool
	mu       sync.Mutex
	subCache map[*Term][]*Term // case -> assumptions specialised to the case
	subMaps  map[*Term]map[*Term]*Term
	symCache map[*Term]map[*Term]bool
	noSlice  bool
	subDone  map[*Term]bool
	leadDone map[*Term]bool
	assumeDefs []map[*Term]bool
	curDefs    map[*Term]bool
	smMemo     map[string][]*smEntry
	puDone     map[*Term]bool
	regionSeq  int
	symDecs    map[string]*Object
	lowerOf    map[*Term]StrVal
	pureApps   map[string][]pureAppRec
	untrackedAppend bool // an append whose destination is not an append-chain from a parameter / nil / fresh slice
	catDirty   bool // some instruction stored into byte memory in place
	catGoal    bool // evaluating an ensures goal in positive position
	panicking  *IfaceVal // non-nil while the deferred calls of a panicking path run and recover() was not called yet
	recovered  bool
	ucalls     []ucallRec // calls of unknown callees, in execution order
	arbRegs    map[ssa.Value]Val
	arbBools   map[string]*Term
	usesCallRes int // 0 unknown, 1 yes, -1 no
	callPosStack []token.Pos // positions of the call instructions being executed (outermost first)
	inlinedCallRes map[string]Val   // results of calls made inside callees verified through their bodies
	inlinedCallRep map[string]*Term // ... and whether they reported
	arrayInit  bool // initVal: array-typed initialisers become array values (not table slices)
	curBlock   *ssa.BasicBlock // block being executed at inline depth 0
	stepOutcomes map[int][][2]*Term // loop ordinal -> (guard, reported in the iteration) per back edge
}

type execErr struct{ msg string }

func (e execErr) Error() string { return e.msg }

func (x *Exec) fail(f string, a ...any) {
	panic(execErr{fmt.Sprintf(f, a...) + " at " + x.curPos})
}

func (x *Exec) assume(t *Term) {
	if t.IsTrue() {
		return
	}
	if x.quantDepth > 0 {
		// a side fact stated while evaluating the body of a quantifier holds for every value of the bound
		// variables it mentions
		if fb := freeBound(t); len(fb) > 0 {
			t = x.o.Forall(fb, t)
		}
	}
	x.assumes = append(x.assumes, t)
	x.assumeDefs = append(x.assumeDefs, x.curDefs)
}

// assumeClosed: assume t for every value of the bound variables that occur free in it (a fact relating a term built
// under a quantifier to one built outside).
func (x *Exec) assumeClosed(t *Term) {
	if fb := freeBound(t); len(fb) > 0 {
		t = x.o.Forall(fb, t)
	}
	x.assume(t)
}

func freeBound(t *Term) []*Term {
	seen := map[*Term]bool{}
	var out []*Term
	inner := map[*Term]bool{}
	var walk func(t *Term)
	walk = func(t *Term) {
		if seen[t] {
			return
		}
		seen[t] = true
		if t.Op == "bvar" {
			if !inner[t] {
				out = append(out, t)
			}
			return
		}
		if t.Op == "forall" || t.Op == "exists" {
			for _, b := range t.Bound {
				inner[b] = true
			}
		}
		for _, a := range t.Args {
			walk(a)
		}
	}
	walk(t)
	return out
}

// defining: hypotheses assumed inside fn only constrain the symbols introduced after mark (results of a call,
// lengths of a submatch): they are relevant to a goal only if one of those symbols is.
func (x *Exec) defining(fn func()) {
	first := x.o.nextID
	start := len(x.assumes)
	fn()
	defs := map[*Term]bool{}
	for _, v := range x.o.vars {
		if v.id > first {
			defs[v] = true
		}
	}
	if len(defs) == 0 {
		return
	}
	for i := start; i < len(x.assumes); i++ {
		x.assumeDefs[i] = defs
	}
}

func (x *Exec) counter(k string) int {
	x.counters[k]++
	return x.counters[k] - 1
}

// oblige records a proof obligation `guard => goal`.
func (x *Exec) oblige(kind, label string, tags []string, text string, guard, goal *Term) *Obligation {
	o := x.o
	g := o.Implies(guard, goal)
	n := x.counter(kind + "|" + label)
	name := fmt.Sprintf("%s/%s#%d", InstName(x.fn), kind, n)
	if label != "" {
		name = fmt.Sprintf("%s/%s(%s)#%d", InstName(x.fn), kind, label, n)
	}
	if len(tags) > 0 {
		name += "[" + strings.Join(tags, " ") + "]"
	}
	ob := &Obligation{Name: name, Kind: kind, Tags: tags, Fn: InstName(x.fn), Text: text, Pos: x.curPos,
		NAssume: len(x.assumes), Goal: g, Trivial: g.IsTrue(), x: x}
	if x.topFc != nil {
		ob.Bounded = x.topFc.Opts["bounded"]
	}
	x.obls = append(x.obls, ob)
	return ob
}

func (x *Exec) typeID(t types.Type) int {
	k := types.TypeString(t, nil)
	if id, ok := x.typeIDs[k]; ok {
		return id
	}
	id := len(x.typeIDs) + 1
	x.typeIDs[k] = id
	x.typeByID[id] = t
	return id
}

func (x *Exec) newObject(name string, t types.Type) *Object {
	x.nobj++
	return &Object{ID: x.nobj, Name: name, T: t}
}

// ---- loops ---------------------------------------------------------------------------------------

type Loop struct {
	Ordinal int
	Header  *ssa.BasicBlock
	Blocks  map[*ssa.BasicBlock]bool
	Spec    *LoopSpec
	Parent  *Loop
}

func findLoops(fn *ssa.Function) []*Loop {
	byHeader := map[*ssa.BasicBlock]*Loop{}
	for _, b := range fn.Blocks {
		for _, s := range b.Succs {
			if s.Dominates(b) { // back edge b -> s
				l := byHeader[s]
				if l == nil {
					l = &Loop{Header: s, Blocks: map[*ssa.BasicBlock]bool{s: true}}
					byHeader[s] = l
				}
				// collect nodes reaching b without passing s
				stack := []*ssa.BasicBlock{b}
				for len(stack) > 0 {
					n := stack[len(stack)-1]
					stack = stack[:len(stack)-1]
					if l.Blocks[n] {
						continue
					}
					l.Blocks[n] = true
					for _, p := range n.Preds {
						stack = append(stack, p)
					}
				}
			}
		}
	}
	var loops []*Loop
	for _, l := range byHeader {
		loops = append(loops, l)
	}
	sort.Slice(loops, func(i, j int) bool { return loops[i].Header.Index < loops[j].Header.Index })
	for i, l := range loops {
		l.Ordinal = i
	}
	// nesting: smallest enclosing loop
	for _, l := range loops {
		for _, m := range loops {
			if m != l && m.Blocks[l.Header] && len(m.Blocks) > len(l.Blocks) {
				if l.Parent == nil || len(m.Blocks) < len(l.Parent.Blocks) {
					l.Parent = m
				}
			}
		}
	}
	return loops
}

type ctxEnt struct {
	L    *Loop
	Iter int
}

type nodeKey struct {
	B   *ssa.BasicBlock
	Ctx string
}

type vnode struct {
	Key  nodeKey
	Ctx  []ctxEnt
	In   []*inEdge
	Succ []vsucc // parallel to B.Succs
}

type vsucc struct {
	Kind string // "node", "back", "unwind"
	To   nodeKey
	Ctx  []ctxEnt
	L    *Loop
}

type inEdge struct {
	Pred *ssa.BasicBlock
	St   *State
}

func ctxKey(c []ctxEnt) string {
	var sb strings.Builder
	for _, e := range c {
		fmt.Fprintf(&sb, "L%d.%d;", e.L.Ordinal, e.Iter)
	}
	return sb.String()
}

func (x *Exec) loopSpec(l *Loop) *LoopSpec {
	if l.Spec != nil {
		return l.Spec
	}
	if x.fc != nil {
		if s, ok := x.fc.Loops[l.Ordinal]; ok {
			l.Spec = s
			return s
		}
	}
	return nil
}

// succOf computes the virtual successor for edge b->s in context ctx.
func (x *Exec) succOf(loops []*Loop, b, s *ssa.BasicBlock, ctx []ctxEnt) vsucc {
	// loops containing s, outermost first
	var chain []*Loop
	for _, l := range loops {
		if l.Blocks[s] {
			chain = append(chain, l)
		}
	}
	sort.Slice(chain, func(i, j int) bool { return len(chain[i].Blocks) > len(chain[j].Blocks) })
	var nctx []ctxEnt
	for _, l := range chain {
		found := false
		for _, e := range ctx {
			if e.L == l {
				found = true
				it := e.Iter
				if s == l.Header && l.Blocks[b] { // back edge
					spec := x.loopSpec(l)
					if spec == nil {
						x.fail("loop %d of %s has neither unroll nor invariant", l.Ordinal, InstName(x.fn))
					}
					if !spec.HasUnroll {
						return vsucc{Kind: "back", L: l, Ctx: ctx}
					}
					it++
					if it > spec.Unroll {
						return vsucc{Kind: "unwind", L: l, Ctx: ctx}
					}
				}
				nctx = append(nctx, ctxEnt{l, it})
				break
			}
		}
		if !found {
			// entering loop l (must be through its header)
			if x.loopSpec(l) == nil {
				x.fail("loop %d of %s has neither unroll nor invariant", l.Ordinal, InstName(x.fn))
			}
			nctx = append(nctx, ctxEnt{l, 0})
		}
	}
	return vsucc{Kind: "node", To: nodeKey{s, ctxKey(nctx)}, Ctx: nctx}
}

// ---- running a function ---------------------------------------------------------------------------

// runBody symbolically executes fn from the given entry state (parameters already bound).
// registerFn numbers the values of fn (in source order) so that maps keyed by SSA values can be walked in a fixed
// order: term and fresh-name creation must not depend on Go's map iteration order, or the generated scripts -- and
// with them the solvers' running times -- would differ from run to run.
func (x *Exec) registerFn(fn *ssa.Function) {
	if x.fnIdx == nil {
		x.fnIdx = map[*ssa.Function]int{}
		x.valSeq = map[ssa.Value]int64{}
	}
	if _, ok := x.fnIdx[fn]; ok {
		return
	}
	idx := len(x.fnIdx)
	x.fnIdx[fn] = idx
	seq := int64(0)
	add := func(v ssa.Value) {
		seq++
		x.valSeq[v] = int64(idx)<<32 | seq
	}
	for _, p := range fn.Params {
		add(p)
	}
	for _, fv := range fn.FreeVars {
		add(fv)
	}
	for _, b := range fn.Blocks {
		for _, ins := range b.Instrs {
			if v, ok := ins.(ssa.Value); ok {
				add(v)
			}
		}
	}
}

func (x *Exec) sortedRegKeys(m map[ssa.Value]Val) []ssa.Value {
	ks := make([]ssa.Value, 0, len(m))
	for k := range m {
		ks = append(ks, k)
	}
	sort.Slice(ks, func(i, j int) bool {
		a, b := x.valSeq[ks[i]], x.valSeq[ks[j]]
		if a != b {
			return a < b
		}
		return ks[i].Name() < ks[j].Name()
	})
	return ks
}

func sortedCellKeys(m map[*Object]Val) []*Object {
	ks := make([]*Object, 0, len(m))
	for k := range m {
		ks = append(ks, k)
	}
	sort.Slice(ks, func(i, j int) bool { return ks[i].ID < ks[j].ID })
	return ks
}

func sortedGhostKeys(m map[string]Val) []string {
	ks := make([]string, 0, len(m))
	for k := range m {
		ks = append(ks, k)
	}
	sort.Strings(ks)
	return ks
}

func (x *Exec) runBody(fn *ssa.Function, entry *State) {
	if len(fn.Blocks) == 0 {
		x.fail("function %s has no body", fn.String())
	}
	x.registerFn(fn)
	loops := findLoops(fn)
	nodes := map[nodeKey]*vnode{}
	var order []*vnode
	// DFS to build the virtual DAG and a reverse post-order
	visited := map[nodeKey]bool{}
	var dfs func(k nodeKey, ctx []ctxEnt)
	dfs = func(k nodeKey, ctx []ctxEnt) {
		if visited[k] {
			return
		}
		visited[k] = true
		n := &vnode{Key: k, Ctx: ctx}
		nodes[k] = n
		for _, s := range k.B.Succs {
			vs := x.succOf(loops, k.B, s, ctx)
			n.Succ = append(n.Succ, vs)
			if vs.Kind == "node" {
				dfs(vs.To, vs.Ctx)
			}
		}
		order = append(order, n)
	}
	var ctx0 []ctxEnt
	for _, l := range loops {
		if l.Header == fn.Blocks[0] {
			ctx0 = append(ctx0, ctxEnt{l, 0})
		}
	}
	k0 := nodeKey{fn.Blocks[0], ctxKey(ctx0)}
	dfs(k0, ctx0)
	// reverse
	for i, j := 0, len(order)-1; i < j; i, j = i+1, j-1 {
		order[i], order[j] = order[j], order[i]
	}
	nodes[k0].In = []*inEdge{{Pred: nil, St: entry}}
	for _, n := range order {
		if len(n.In) == 0 {
			continue
		}
		x.runNode(fn, loops, nodes, n)
	}
}

func (x *Exec) mergeStates(b *ssa.BasicBlock, ins []*inEdge) *State {
	o := x.o
	if len(ins) == 1 {
		st := ins[0].St.clone()
		// phis
		x.bindPhis(b, ins, st)
		return st
	}
	guards := make([]*Term, len(ins))
	for i, e := range ins {
		guards[i] = e.St.Guard
	}
	st := &State{Guard: o.Or(guards...), Regs: map[ssa.Value]Val{}, Cells: map[*Object]Val{}, Ghost: map[string]Val{}}
	mergeVals := func(get func(s *State) (Val, bool)) (res Val, okRes bool) {
		defer func() {
			if r := recover(); r != nil {
				if _, isM := r.(mergeErr); isM {
					res, okRes = nil, false // unmergeable (dead) value: dropped; a later use is reported
					return
				}
				if re, isRT := r.(runtime.Error); isRT {
					if os.Getenv("GOVC_DEBUG") != "" {
						fmt.Fprintln(os.Stderr, "merge: runtime error:", re)
					}
					res, okRes = nil, false // values of different shapes: unmergeable
					return
				}
				panic(r)
			}
		}()
		var acc Val
		have := false
		for i := len(ins) - 1; i >= 0; i-- {
			v, ok := get(ins[i].St)
			if !ok {
				return nil, false
			}
			if !have {
				acc, have = v, true
				continue
			}
			if sameVal(acc, v) {
				continue
			}
			acc = x.iteVal(guards[i], v, acc)
		}
		return acc, have
	}
	for _, k := range x.sortedRegKeys(ins[0].St.Regs) {
		k := k
		if v, ok := mergeVals(func(s *State) (Val, bool) { v, ok := s.Regs[k]; return v, ok }); ok {
			st.Regs[k] = v
		}
	}
	if x.inlineDepth == 0 && x.fc != nil && x.fcUsesCallResults() {
		// Specifications of this function address the results of calls in its body (callres / callReported). A call
		// that ran on some of the merged paths only keeps its result there (and is arbitrary on the others) instead
		// of being forgotten at the join.
		union := map[ssa.Value]bool{}
		for _, e := range ins {
			for k := range e.St.Regs {
				if _, isCall := k.(*ssa.Call); isCall {
					if _, have := st.Regs[k]; !have {
						union[k] = true
					}
				}
			}
		}
		var ks []ssa.Value
		for k := range union {
			ks = append(ks, k)
		}
		sort.Slice(ks, func(i, j int) bool { return ks[i].Name() < ks[j].Name() })
		for _, k := range ks {
			k := k
			if v, ok := mergeVals(func(s *State) (Val, bool) {
				if v, ok := s.Regs[k]; ok {
					return v, true
				}
				return x.regOrArbitrary(s, k), true
			}); ok {
				st.Regs[k] = v
			}
		}
		gunion := map[string]bool{}
		for _, e := range ins {
			for g := range e.St.Ghost {
				if strings.HasPrefix(g, "$rep.") {
					gunion[g] = true
				}
			}
		}
		var gs []string
		for g := range gunion {
			gs = append(gs, g)
		}
		sort.Strings(gs)
		for _, g := range gs {
			g := g
			if x.arbBools == nil {
				x.arbBools = map[string]*Term{}
			}
			if _, ok := x.arbBools["$join"+g]; !ok {
				x.arbBools["$join"+g] = o.Fresh("notrun.reported"+g[4:], BoolSort)
			}
			arb := x.arbBools["$join"+g]
			if v, ok := mergeVals(func(s *State) (Val, bool) {
				if v, ok := s.Ghost[g]; ok {
					return v, true
				}
				return arb, true
			}); ok {
				st.Ghost[g] = v
			}
		}
	}
	for _, k := range sortedCellKeys(ins[0].St.Cells) {
		k := k
		if v, ok := mergeVals(func(s *State) (Val, bool) { v, ok := s.Cells[k]; return v, ok }); ok {
			st.Cells[k] = v
		} else if os.Getenv("GOVC_DEBUG") != "" {
			fmt.Fprintf(os.Stderr, "merge: cell of %s (%s) dropped at block %d\n", k.Name, k.T, b.Index)
			for _, in := range ins {
				fmt.Fprintf(os.Stderr, "   pred %d: %T\n", in.Pred.Index, in.St.Cells[k])
			}
		}
	}
	for _, k := range sortedGhostKeys(ins[0].St.Ghost) {
		k := k
		if v, ok := mergeVals(func(s *State) (Val, bool) { v, ok := s.Ghost[k]; return v, ok }); ok {
			st.Ghost[k] = v
		}
	}
	h, _ := mergeVals(func(s *State) (Val, bool) { return s.H, true })
	st.H = h.(*Term)
	a, _ := mergeVals(func(s *State) (Val, bool) { return s.Alloc, true })
	st.Alloc = a.(*Term)
	x.bindPhis(b, ins, st)
	return st
}

func (x *Exec) bindPhis(b *ssa.BasicBlock, ins []*inEdge, st *State) {
	for _, ins_ := range b.Instrs {
		phi, ok := ins_.(*ssa.Phi)
		if !ok {
			break
		}
		var acc Val
		have := false
		for i := len(ins) - 1; i >= 0; i-- {
			e := ins[i]
			idx := -1
			for pi, p := range b.Preds {
				if p == e.Pred {
					idx = pi
					break
				}
			}
			if idx < 0 {
				x.fail("phi: predecessor not found")
			}
			v := x.operand(e.St, phi.Edges[idx])
			if !have {
				acc, have = v, true
			} else if !sameVal(acc, v) {
				acc = x.iteVal(e.St.Guard, v, acc)
			}
		}
		st.Regs[phi] = acc
	}
}

func (x *Exec) runNode(fn *ssa.Function, loops []*Loop, nodes map[nodeKey]*vnode, n *vnode) {
	o := x.o
	b := n.Key.B
	// drop dead incoming edges
	var live []*inEdge
	for _, e := range n.In {
		if !e.St.Guard.IsFalse() {
			live = append(live, e)
		}
	}
	if len(live) == 0 {
		return
	}
	st := x.mergeStates(b, live)
	if x.inlineDepth == 0 {
		x.curBlock = b
	}
	// invariant-cut loop header?
	for _, l := range loops {
		if l.Header == b {
			spec := x.loopSpec(l)
			if spec != nil && !spec.HasUnroll {
				x.cutLoopAtHeader(fn, l, spec, st)
			}
		}
	}
	for _, ins := range b.Instrs {
		if _, ok := ins.(*ssa.Phi); ok {
			continue
		}
		if p := ins.Pos(); p.IsValid() {
			pp := x.w.Fset.Position(p)
			x.curPos = fmt.Sprintf("%s:%d", relPath(x.w.RepoDir, pp.Filename), pp.Line)
		}
		switch t := ins.(type) {
		case *ssa.If:
			c := x.operand(st, t.Cond).(*Term)
			x.pushEdge(fn, loops, nodes, n, 0, st, o.And(st.Guard, c))
			x.pushEdge(fn, loops, nodes, n, 1, st, o.And(st.Guard, o.Not(c)))
			return
		case *ssa.Jump:
			x.pushEdge(fn, loops, nodes, n, 0, st, st.Guard)
			return
		case *ssa.Return:
			var rs []Val
			for _, r := range t.Results {
				rs = append(rs, x.operand(st, r))
			}
			if x.inlineDepth == 0 {
				// a return reached after leaving a loop from inside its body (return, break): its exit clauses
				for _, l := range loops {
					if in, ok := st.Ghost[fmt.Sprintf("$inloop%d", l.Ordinal)].(*Term); ok && !in.IsFalse() {
						x.loopExitObligations(fn, l, st, in)
					}
				}
			}
			x.returns = append(x.returns, &ReturnPoint{St: st, Results: rs})
			return
		case *ssa.Panic:
			x.panics = append(x.panics, st.Guard)
			x.onPanic(st, t)
			return
		default:
			x.step(st, ins)
			if st.Guard.IsFalse() {
				return
			}
		}
	}
}

func relPath(base, p string) string {
	if strings.HasPrefix(p, base+"/") {
		return p[len(base)+1:]
	}
	return p
}

func (x *Exec) pushEdge(fn *ssa.Function, loops []*Loop, nodes map[nodeKey]*vnode, n *vnode, si int, st *State, guard *Term) {
	if guard.IsFalse() {
		return
	}
	vs := n.Succ[si]
	switch vs.Kind {
	case "unwind":
		x.oblige("unwind", fmt.Sprintf("loop%d", vs.L.Ordinal), nil, fmt.Sprintf("loop %d exits within %d iterations", vs.L.Ordinal, vs.L.Spec.Unroll), guard, x.o.False())
	case "back":
		ns := st.clone()
		ns.Guard = guard
		x.loopBackEdge(fn, vs.L, n.Key.B, ns)
	case "node":
		ns := st.clone()
		ns.Guard = guard
		if x.inlineDepth == 0 {
			// the regular way out of a loop is from its header: the loop is not "left from inside" then
			for _, l := range loops {
				if n.Key.B == l.Header && !l.Blocks[vs.To.B] {
					if _, ok := ns.Ghost[fmt.Sprintf("$inloop%d", l.Ordinal)]; ok {
						ns.Ghost[fmt.Sprintf("$inloop%d", l.Ordinal)] = x.o.False()
					}
				}
			}
		}
		t := nodes[vs.To]
		t.In = append(t.In, &inEdge{Pred: n.Key.B, St: ns})
	}
}

// ---- invariant loops --------------------------------------------------------------------------------

func (x *Exec) loopEnv(fn *ssa.Function, l *Loop, st *State) *SpecEnv {
	env := x.specEnv(x.entry, st)
	var cur []string
	for _, ins := range l.Header.Instrs {
		phi, ok := ins.(*ssa.Phi)
		if !ok {
			break
		}
		if phi.Comment != "" {
			if v, ok := st.Regs[phi]; ok {
				env.vars[phi.Comment] = SVal{V: v, T: phi.Type()}
			}
		}
		cur = append(cur, phi.Comment)
	}
	// a renamed loop variable stays reachable under the name recorded from the unchanged tree
	if x.inlineDepth == 0 {
		al := x.w.loopNameAliases(fn, l.Ordinal, cur)
		olds := make([]string, 0, len(al))
		for k := range al {
			olds = append(olds, k)
		}
		sort.Strings(olds)
		for _, old := range olds {
			if v, ok := env.vars[al[old]]; ok {
				if _, taken := env.vars[old]; !taken {
					env.vars[old] = v
				}
			}
		}
	}
	return env
}

func (x *Exec) cutLoopAtHeader(fn *ssa.Function, l *Loop, spec *LoopSpec, st *State) {
	o := x.o
	// 1. invariant holds on entry
	env := x.loopEnv(fn, l, st)
	for i, inv := range spec.Invs {
		if spec.Dropped[i] {
			continue
		}
		if inv.Candidate && spec.Dropped != nil && !x.candidateEvaluates(env, inv) {
			// a candidate written for another shape of this loop (it names a variable this shape does not have)
			spec.Dropped[i] = true
			x.note("candidate invariant does not apply to this code shape (unresolved name), not used: loop %d: %s", l.Ordinal, inv.Text)
			continue
		}
		ob := x.oblige("inv-init", fmt.Sprintf("loop%d.%d", l.Ordinal, i), inv.Tags, inv.Text, st.Guard, x.evalClause(env, inv))
		if inv.Candidate {
			ob.CandLoop, ob.CandIdx = l.Ordinal, i+1
		}
	}
	// 2. havoc loop-carried state
	for _, ins := range l.Header.Instrs {
		phi, ok := ins.(*ssa.Phi)
		if !ok {
			break
		}
		st.Regs[phi] = x.freshVal(fmt.Sprintf("loop%d.%s", l.Ordinal, phi.Name()), phi.Type())
	}
	if len(spec.Steps)+len(spec.Exits) > 0 {
		if _, ok := st.Ghost["reports"]; !ok {
			st.Ghost["reports"] = o.Int(0)
		}
	}
	mods := x.loopMods(l, st)
	if len(spec.Steps)+len(spec.Exits) > 0 {
		mods.ghost["reports"] = true
	}
	var havockedSlices []SliceVal
	modObjs := make([]*Object, 0, len(mods.objs))
	for obj := range mods.objs {
		modObjs = append(modObjs, obj)
	}
	sort.Slice(modObjs, func(i, j int) bool { return modObjs[i].ID < modObjs[j].ID })
	for _, obj := range modObjs {
		cur, isSlice := st.Cells[obj].(SliceVal)
		if !isSlice && strings.Contains(obj.T.String(), "strings.Builder") {
			isSlice = true
			cur = SliceVal{Elem: typByte}
		}
		if isSlice {
			// e.g. the slice inside a bytes.Buffer / strings.Builder: stays a slice
			ns := x.freshSlice(fmt.Sprintf("loop%d.obj%d", l.Ordinal, obj.ID), cur.Elem)
			st.Cells[obj] = ns
			havockedSlices = append(havockedSlices, ns)
			continue
		}
		if dv, isDec := x.cell(st, obj).(DecVal); isDec {
			tag := fmt.Sprintf("loop%d.dec%d", l.Ordinal, obj.ID)
			nd := DecVal{View: dv.View, Pos: o.Fresh(tag+".pos", IntSort), Depth: o.Fresh(tag+".depth", IntSort),
				InObj: o.Fresh(tag+".inobj", BoolSort), AtKey: o.Fresh(tag+".atkey", BoolSort)}
			x.assume(o.And(o.Le(dv.Pos, nd.Pos), o.Le(nd.Pos, x.nTok(dv.View)), o.Le(o.Int(0), nd.Depth)))
			st.Cells[obj] = nd
			continue
		}
		st.Cells[obj] = x.freshVal(fmt.Sprintf("loop%d.obj%d", l.Ordinal, obj.ID), obj.T)
	}
	if mods.heap {
		st.H = o.Fresh(fmt.Sprintf("H.loop%d", l.Ordinal), o.HeapSort())
		na := o.Fresh(fmt.Sprintf("alloc.loop%d", l.Ordinal), IntSort)
		o.allocVars[na] = true
		x.assume(o.Ge(na, o.Add(st.Alloc, o.Int(1<<20))))
		st.Alloc = na
		for _, hs := range havockedSlices {
			x.assume(o.Lt(hs.Reg, na))
		}
	}
	ghostNames := make([]string, 0, len(mods.ghost))
	for g := range mods.ghost {
		ghostNames = append(ghostNames, g)
	}
	sort.Strings(ghostNames)
	for _, g := range ghostNames {
		if v, ok := st.Ghost[g]; ok {
			st.Ghost[g] = x.freshLike(fmt.Sprintf("loop%d.%s", l.Ordinal, g), v)
			if g == "reports" {
				// the report counter only grows
				x.assume(o.Le(v.(*Term), st.Ghost[g].(*Term)))
			}
		}
	}
	if len(spec.Steps)+len(spec.Exits) > 0 {
		st.Ghost[fmt.Sprintf("$iter%d.reports", l.Ordinal)] = st.Ghost["reports"]
	}
	if len(spec.Exits) > 0 {
		st.Ghost[fmt.Sprintf("$inloop%d", l.Ordinal)] = o.True()
	}
	// 3. assume invariant
	env = x.loopEnv(fn, l, st)
	for i, inv := range spec.Invs {
		if spec.Dropped[i] {
			continue
		}
		x.assume(o.Implies(st.Guard, x.evalClause(env, inv)))
	}
	if spec.Decreases != nil {
		v := env.eval(spec.Decreases.E)
		st.Ghost[fmt.Sprintf("$dec%d", l.Ordinal)] = env.asInt(v, tyInt)
	}
}

// loopExitObligations: the loop is left from inside its body on the path st.
func (x *Exec) loopExitObligations(fn *ssa.Function, l *Loop, st *State, inLoop *Term) {
	spec := x.loopSpec(l)
	if spec == nil || len(spec.Exits) == 0 {
		return
	}
	env := x.loopEnv(fn, l, st)
	env.iterReports, _ = st.Ghost[fmt.Sprintf("$iter%d.reports", l.Ordinal)].(*Term)
	if env.iterReports == nil {
		return
	}
	for i, ec := range spec.Exits {
		x.oblige("loop-exit", fmt.Sprintf("loop%d.%d", l.Ordinal, i), ec.Tags, ec.Text, x.o.And(st.Guard, inLoop), x.evalClause(env, ec))
	}
}

func (x *Exec) loopBackEdge(fn *ssa.Function, l *Loop, from *ssa.BasicBlock, st *State) {
	o := x.o
	// bind phis with the values flowing along this back edge
	ns := st.clone()
	x.bindPhis(l.Header, []*inEdge{{Pred: from, St: st}}, ns)
	env := x.loopEnv(fn, l, ns)
	spec := x.loopSpec(l)
	for i, inv := range spec.Invs {
		if spec.Dropped[i] {
			continue
		}
		ob := x.oblige("inv-preserve", fmt.Sprintf("loop%d.%d", l.Ordinal, i), inv.Tags, inv.Text, st.Guard, x.evalClause(env, inv))
		if inv.Candidate {
			ob.CandLoop, ob.CandIdx = l.Ordinal, i+1
		}
	}
	if len(spec.Steps) > 0 {
		// vacuity guard: over all back edges, some iteration reports and some stays silent
		ir, _ := st.Ghost[fmt.Sprintf("$iter%d.reports", l.Ordinal)].(*Term)
		cur, _ := st.Ghost["reports"].(*Term)
		if ir != nil && cur != nil {
			if x.stepOutcomes == nil {
				x.stepOutcomes = map[int][][2]*Term{}
			}
			x.stepOutcomes[l.Ordinal] = append(x.stepOutcomes[l.Ordinal], [2]*Term{st.Guard, o.Lt(ir, cur)})
		}
	}
	for i, sc := range spec.Steps {
		env.iterReports, _ = st.Ghost[fmt.Sprintf("$iter%d.reports", l.Ordinal)].(*Term)
		x.oblige("step", fmt.Sprintf("loop%d.%d", l.Ordinal, i), sc.Tags, sc.Text, st.Guard, x.evalClause(env, sc))
	}
	if spec.Decreases != nil {
		old := st.Ghost[fmt.Sprintf("$dec%d", l.Ordinal)].(*Term)
		nv := env.asInt(env.eval(spec.Decreases.E), tyInt)
		x.oblige("decreases", fmt.Sprintf("loop%d", l.Ordinal), spec.Decreases.Tags, spec.Decreases.Text, st.Guard,
			o.And(o.IdxLe(o.Idx(0), old), o.IdxLt(nv, old)))
	}
}

type modSet struct {
	objs  map[*Object]bool
	heap  bool
	ghost map[string]bool
}

// loopMods: conservative syntactic approximation of the state a loop body may modify.
func (x *Exec) loopMods(l *Loop, st *State) modSet {
	m := modSet{objs: map[*Object]bool{}, ghost: map[string]bool{}}
	var addrObj func(v ssa.Value) (*Object, bool)
	addrObj = func(v ssa.Value) (*Object, bool) {
		switch a := v.(type) {
		case *ssa.FieldAddr:
			return addrObj(a.X)
		case *ssa.IndexAddr:
			if _, isSlice := a.X.Type().Underlying().(*types.Slice); isSlice {
				return nil, true // heap
			}
			return addrObj(a.X)
		}
		if pv, ok := st.Regs[v].(PtrVal); ok && pv.Obj != nil {
			return pv.Obj, false
		}
		if pv, ok := st.Regs[v].(PtrVal); ok && len(pv.Alts) > 0 {
			for _, ob := range pv.objs() {
				m.objs[ob] = true
			}
		}
		return nil, false
	}
	for b := range l.Blocks {
		for _, ins := range b.Instrs {
			switch t := ins.(type) {
			case *ssa.Next:
				if it, ok := st.Regs[t.Iter].(rangeIter); ok {
					m.objs[it.Obj] = true
				}
			case *ssa.Store:
				obj, heap := addrObj(t.Addr)
				if heap {
					m.heap = true
				} else if obj != nil {
					m.objs[obj] = true
				} else {
					m.heap = true // unknown target: be conservative
					for o2 := range st.Cells {
						if !strings.HasPrefix(o2.Name, "local:") {
							m.objs[o2] = true
						}
					}
				}
			case ssa.CallInstruction:
				c := t.Common()
				if x.callTouchesDecoder(c) {
					for o2, cv := range st.Cells {
						if _, isDec := cv.(DecVal); isDec {
							m.objs[o2] = true
						}
					}
					for _, o2 := range x.symDecs {
						m.objs[o2] = true
					}
				}
				if c.IsInvoke() {
					if _, ok := invokeSchemas[invokeKey(c)]; ok {
						continue // modelled interface method: ghost decoder state only
					}
				}
				if !x.callMayWriteHeap(c) {
					continue
				}
				m.heap = true
				touchesGhost := true
				if sc := c.StaticCallee(); sc != nil {
					if pp := fnPkg(sc); pp == nil || x.w.ByPath[pp.Pkg.Path()] == nil {
						// external function: only the sync.Mutex schemas change ghost state
						touchesGhost = strings.Contains(sc.String(), "sync.Mutex")
					} else if fc := x.w.ByPath[pp.Pkg.Path()].Contracts.Funcs[ContractKey(sc)]; fc != nil && !fc.Inline {
						// a function under contract is itself obliged to leave every lock as it found it
						touchesGhost = false
					} else if fc == nil && sc.Parent() == nil && !x.fnMayTouchGhost(sc, 0) {
						// a function without a contract (verified through its body) that makes no call at all that
						// could change ghost state
						touchesGhost = false
					}
				} else if _, isBuiltin := c.Value.(*ssa.Builtin); isBuiltin {
					touchesGhost = false
				}
				dynamic := c.StaticCallee() == nil
				for g := range st.Ghost {
					if dynamic && strings.HasPrefix(g, "held:") {
						// an unknown callee cannot name another package's private mutex; if it calls functions that
						// use it, they leave it as they found it
						continue
					}
					if !strings.HasPrefix(g, "$") && touchesGhost {
						m.ghost[g] = true
					}
				}
				for _, a := range c.Args {
					if pv, ok := st.Regs[a].(PtrVal); ok {
						for _, ob := range pv.objs() {
							m.objs[ob] = true
						}
					}
				}
				if c.IsInvoke() {
					if pv, ok := st.Regs[c.Value].(PtrVal); ok && pv.Obj != nil {
						m.objs[pv.Obj] = true
					}
				}
			}
		}
	}
	return m
}

// callTouchesDecoder: the call may advance a json decoder's ghost cursor (a modelled decoder method, or a module
// function whose contract assigns decoder(..)).
func (x *Exec) callTouchesDecoder(c *ssa.CallCommon) bool {
	if c.IsInvoke() {
		_, ok := invokeSchemas[invokeKey(c)]
		return ok
	}
	sc := c.StaticCallee()
	if sc == nil {
		return false
	}
	if strings.Contains(sc.String(), "encoding/json.Decoder") {
		return true
	}
	if pp := fnPkg(sc); pp != nil {
		if pk, ok := x.w.ByPath[pp.Pkg.Path()]; ok {
			if fc := pk.Contracts.Funcs[ContractKey(sc)]; fc != nil {
				if fc.Inline {
					return true
				}
				for _, a := range fc.Assigns {
					if strings.HasPrefix(strings.TrimSpace(a), "decoder(") {
						return true
					}
				}
			}
		}
	}
	return false
}

func (x *Exec) evalClause(env *SpecEnv, c *Clause) (res *Term) {
	defer func() {
		if r := recover(); r != nil {
			if se, ok := r.(specErr); ok {
				x.fail("specification error in %q (%s:%d): %s", c.Text, x.contractFile(), c.Line, se.msg)
			}
			panic(r)
		}
	}()
	return env.evalBool(c.E)
}

func (x *Exec) contractFile() string {
	if x.fc != nil {
		return relPath(x.w.RepoDir, x.fc.File)
	}
	return "?"
}

// callMayWriteHeap: false for calls that certainly leave byte memory alone (module functions whose contract
// assigns nothing, read-only external functions).
func (x *Exec) callMayWriteHeap(c *ssa.CallCommon) bool {
	if b, ok := c.Value.(*ssa.Builtin); ok {
		return b.Name() == "append" || b.Name() == "copy"
	}
	sc := c.StaticCallee()
	if sc == nil {
		return true
	}
	if pp := fnPkg(sc); pp != nil {
		if pk, ok := x.w.ByPath[pp.Pkg.Path()]; ok {
			fc := pk.Contracts.Funcs[ContractKey(sc)]
			return fc == nil || fc.Inline || len(fc.Assigns) > 0
		}
	}
	name := sc.String()
	for _, p := range []string{"strings.", "(*regexp.Regexp).", "strconv.Parse", "strconv.Atoi", "math/bits.", "unicode/utf8.", "fmt.Errorf"} {
		if strings.HasPrefix(name, p) {
			return false
		}
	}
	return true
}

// fnMayTouchGhost: the function (or a function it calls, to a small depth) may change lock ghost state: it calls
// a sync.Mutex method, or a module function without a contract that does. Functions under contract leave every lock
// as they found it (their own obligation); unknown callees cannot name another package's private mutex.
func (x *Exec) fnMayTouchGhost(fn *ssa.Function, depth int) bool {
	if depth > 4 || len(fn.Blocks) == 0 {
		return true
	}
	for _, b := range fn.Blocks {
		for _, ins := range b.Instrs {
			ci, ok := ins.(ssa.CallInstruction)
			if !ok {
				continue
			}
			c := ci.Common()
			if _, isBuiltin := c.Value.(*ssa.Builtin); isBuiltin {
				continue
			}
			sc := c.StaticCallee()
			if sc == nil {
				continue
			}
			pp := fnPkg(sc)
			if pp == nil {
				return true
			}
			if pk, inModule := x.w.ByPath[pp.Pkg.Path()]; inModule {
				if fc := pk.Contracts.Funcs[ContractKey(sc)]; fc != nil && !fc.Inline {
					continue
				}
				if x.fnMayTouchGhost(sc, depth+1) {
					return true
				}
				continue
			}
			if strings.Contains(sc.String(), "sync.Mutex") || strings.Contains(sc.String(), "sync.RWMutex") {
				return true
			}
		}
	}
	return false
}

// fcUsesCallResults: the contract of the function being verified mentions callres / callReported.
func (x *Exec) fcUsesCallResults() bool {
	if x.usesCallRes != 0 {
		return x.usesCallRes > 0
	}
	x.usesCallRes = -1
	mentions := func(t string) bool { return strings.Contains(t, "callres(") || strings.Contains(t, "callReported(") }
	for _, c := range x.fc.Ensures {
		if mentions(c.Text) {
			x.usesCallRes = 1
		}
	}
	for _, ls := range x.fc.Loops {
		for _, c := range append(append(append([]*Clause{}, ls.Invs...), ls.Steps...), ls.Exits...) {
			if mentions(c.Text) {
				x.usesCallRes = 1
			}
		}
	}
	return x.usesCallRes > 0
}

// candidateEvaluates: the candidate clause can be evaluated in env (all its names resolve).
func (x *Exec) candidateEvaluates(env *SpecEnv, c *Clause) (ok bool) {
	defer func() {
		if r := recover(); r != nil {
			if _, isSpec := r.(specErr); isSpec {
				ok = false
				return
			}
			panic(r)
		}
	}()
	saved := len(x.assumes)
	env.evalBool(c.E)
	x.assumes = x.assumes[:saved] // side facts of a trial evaluation are not kept
	return true
}
