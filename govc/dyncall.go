package main

// Calls whose callee is not known statically - function values held in parameters or struct fields, methods of
// interface values of unknown dynamic type - and the panics such callees may raise.
//
// An unknown callee is arbitrary code. What the caller may rely on is either nothing (default) or an assumed
// contract given in the contract file for the *type* through which the call is made:
//
//	//@ func type:AssertErrorFunc            (a named function type of the package)
//	//@ func method:TypeHelper.New           (a method of a named interface type)
//
// Such a contract is an assumption about every value of that type (listed in the evidence), its `requires`
// clauses are obligations of the caller. Without `opt nopanic` the callee may panic.
//
// Default (no contract): the results are arbitrary; everything reachable from pointer arguments and all byte
// memory may have changed; the callee may panic; it does not report to a TestingT (assumption, listed).
//
// Panics: the call site forks. On the panicking branch the deferred calls of the function run with recover()
// returning a non-nil value; if one of them recovered, control continues in the function's recover block (the
// named results as they stand) - otherwise the panic leaves the function, which is an obligation
// ("no panic escapes") that fails.

import (
	"fmt"
	"go/token"
	"go/types"
	"sort"
	"strings"

	"golang.org/x/tools/go/ssa"
)

// calleeDesc: what applyContract needs to know about a callee.
type calleeDesc struct {
	Label   string // stable label used in obligation names
	Inst    string // display name
	PNames  []string
	PTypes  []types.Type
	Sig     *types.Signature
	RNames  [][]string
	TParams map[string]types.Type
	Fn      *ssa.Function // nil for dynamic callees
}

func descOfFn(fn *ssa.Function) calleeDesc {
	d := calleeDesc{Label: ContractKey(fn), Inst: InstName(fn), Sig: fn.Signature, RNames: resultNames(fn), TParams: tparamMap(fn), Fn: fn}
	for _, p := range fn.Params {
		d.PNames = append(d.PNames, p.Name())
		d.PTypes = append(d.PTypes, p.Type())
	}
	return d
}

func sigResultNames(sig *types.Signature) [][]string {
	res := sig.Results()
	out := make([][]string, res.Len())
	named := map[string]bool{}
	for i := 0; i < res.Len(); i++ {
		named[res.At(i).Name()] = true
	}
	for i := 0; i < sig.Params().Len(); i++ {
		named[sig.Params().At(i).Name()] = true
	}
	for i := 0; i < res.Len(); i++ {
		if alias := fmt.Sprintf("r%d", i); !named[alias] {
			out[i] = append(out[i], alias)
		}
		if n := res.At(i).Name(); n != "" && n != "_" {
			out[i] = append(out[i], n)
		}
		if i == 0 && !named["result"] {
			out[i] = append(out[i], "result")
		}
		if i == res.Len()-1 && isErrorType(res.At(i).Type()) && !named["err"] {
			out[i] = append(out[i], "err")
		}
	}
	return out
}

// dynKey: the contract key of a dynamic call, "" if the type through which it is made has no name.
func dynKey(c *ssa.CallCommon) string {
	if c.IsInvoke() {
		t := c.Value.Type()
		if n, ok := t.(*types.Named); ok {
			return "method:" + n.Obj().Name() + "." + c.Method.Name()
		}
		return ""
	}
	if n, ok := c.Value.Type().(*types.Named); ok {
		return "type:" + n.Obj().Name()
	}
	// a function value of unnamed type held in a named local variable (a loop-carried phi): "var:NAME"
	if phi, ok := c.Value.(*ssa.Phi); ok && phi.Comment != "" {
		return "var:" + phi.Comment
	}
	return ""
}

func dynLabel(c *ssa.CallCommon) string {
	if c.IsInvoke() {
		return "invoke." + c.Method.Name()
	}
	if k := dynKey(c); k != "" {
		return strings.TrimPrefix(strings.TrimPrefix(k, "type:"), "var:")
	}
	return "funcvalue"
}

type ucallRec struct {
	Label   string
	Results []Val
	Types   []types.Type
}

// unknownCall: a call of an unknown callee (recv is nil for function values).
func (x *Exec) unknownCall(st *State, c *ssa.CallCommon, recv Val, args []Val) Val {
	o := x.o
	if o.M.BV {
		x.fail("calls of unknown callees need `mode int`")
	}
	label := dynLabel(c)
	sig := c.Signature()
	// a nil callee is a run-time panic (which a deferred recover() catches like any other)
	isNil := o.False()
	switch rv := recv.(type) {
	case nil:
		isNil = x.funcIsNil(x.operand(st, c.Value).(FuncVal))
	case IfaceVal:
		isNil = o.Eq(rv.Tag, o.Int(0))
	}
	var fc *FuncContract
	if k := dynKey(c); k != "" {
		fc = x.pk.Contracts.Funcs[k]
	}
	x.callSeq++
	seq := x.callSeq
	var result Val
	if fc != nil {
		d := calleeDesc{Label: label, Inst: fc.Name, Sig: sig, RNames: sigResultNames(sig), TParams: x.tparams}
		for i := 0; i < sig.Params().Len(); i++ {
			d.PNames = append(d.PNames, sig.Params().At(i).Name())
			d.PTypes = append(d.PTypes, sig.Params().At(i).Type())
		}
		x.trusted["ASSUMED CONTRACT of every value of "+strings.Replace(strings.Replace(strings.Replace(fc.Name, "type:", "function type ", 1), "method:", "interface method ", 1), "var:", "function variable ", 1)+" (never verified; callers rely on it)"] = true
		x.defining(func() { result = x.applyContractD(st, x.pk, d, fc, args) })
	} else {
		x.trusted[fmt.Sprintf("unknown callee (%s): assumed not to report to a TestingT nor to touch memory it cannot reach from its arguments", label)] = true
		// everything reachable from the arguments may have changed
		bytes := false
		for _, a := range args {
			if x.havocReachable(st, a, fmt.Sprintf("u%d", seq)) {
				bytes = true
			}
		}
		if recv != nil && x.havocReachable(st, recv, fmt.Sprintf("u%d", seq)) {
			bytes = true
		}
		if bytes {
			// the callee received a byte slice: byte memory may have changed
			st.H = o.Fresh(fmt.Sprintf("H.u%d", seq), o.HeapSort())
		}
		na := o.Fresh(fmt.Sprintf("alloc.u%d", seq), IntSort)
		o.allocVars[na] = true
		x.assume(o.Ge(na, o.Add(st.Alloc, o.Int(1<<20))))
		st.Alloc = na
		res := sig.Results()
		vals := make([]Val, res.Len())
		for i := range vals {
			vals[i] = x.freshVal(fmt.Sprintf("u%d.%s.r%d", seq, sanitize(label), i), res.At(i).Type())
			if sv, ok := vals[i].(SliceVal); ok {
				x.assume(o.Lt(sv.Reg, st.Alloc))
			}
		}
		switch len(vals) {
		case 0:
		case 1:
			result = vals[0]
		default:
			result = TupleVal(vals)
		}
	}
	var rs []Val
	switch r := result.(type) {
	case nil:
	case TupleVal:
		rs = r
	default:
		rs = []Val{r}
	}
	var rts []types.Type
	for i := 0; i < sig.Results().Len(); i++ {
		rts = append(rts, sig.Results().At(i).Type())
	}
	x.ucalls = append(x.ucalls, ucallRec{Label: label, Results: rs, Types: rts})
	if fc == nil || fc.Opts["nopanic"] == "" {
		x.mayPanic(st, label, nil, isNil)
	} else if !isNil.IsFalse() {
		x.mayPanic(st, label, isNil, nil)
	}
	return result
}

// havocReachable: objects reachable from v through pointers get arbitrary contents; reports whether v gives access
// to byte memory.
func (x *Exec) havocReachable(st *State, v Val, tag string) (bytes bool) {
	switch t := v.(type) {
	case SliceVal:
		return true
	case PtrVal:
		for _, ob := range t.objs() {
			if ob.ReadOnly {
				continue
			}
			if _, isDec := x.cell(st, ob).(DecVal); isDec {
				x.fail("unknown callee receives a json decoder")
			}
			if x.havocReachable(st, x.cell(st, ob), tag) {
				bytes = true
			}
			st.Cells[ob] = x.freshVal(fmt.Sprintf("%s.obj%d", tag, ob.ID), ob.T)
		}
	case StructVal:
		for _, f := range t.F {
			if x.havocReachable(st, f, tag) {
				bytes = true
			}
		}
	case IfaceVal:
		ids := make([]int, 0, len(t.Pay))
		for id := range t.Pay {
			ids = append(ids, id)
		}
		sort.Ints(ids)
		for _, id := range ids {
			if x.havocReachable(st, t.Pay[id], tag) {
				bytes = true
			}
		}
		if t.Sym != "" {
			bytes = true // unknown dynamic type: it may hold a byte slice
		}
	case TupleVal:
		for _, f := range t {
			if x.havocReachable(st, f, tag) {
				bytes = true
			}
		}
	}
	return bytes
}

// mayPanic forks the current path: the callee just called may have panicked instead of returning.
// With cond == nil the panic is the callee's free choice; otherwise the path panics exactly when cond holds.
func (x *Exec) mayPanic(st *State, what string, cond, also *Term) {
	o := x.o
	if x.inlineDepth > 0 {
		x.fail("a callee that may panic (%s) is called inside an inlined function: give the function a contract", what)
	}
	x.callSeq++
	p := cond
	if p == nil {
		p = o.Fresh(fmt.Sprintf("panicked%d.%s", x.callSeq, sanitize(what)), BoolSort)
		if also != nil {
			p = o.Or(p, also)
		}
	}
	ps := st.clone()
	ps.Guard = o.And(st.Guard, p)
	st.Guard = o.And(st.Guard, o.Not(p))
	x.panicExit(ps, what)
}

// panicExit: the path ps leaves the current function by a panic.
func (x *Exec) panicExit(ps *State, what string) {
	o := x.o
	if ps.Guard.IsFalse() {
		return
	}
	fn := x.fn
	x.callSeq++
	tag := o.Fresh(fmt.Sprintf("panicval%d.tag", x.callSeq), IntSort)
	x.assume(o.Gt(tag, o.Int(0)))
	saved := x.panicking
	x.panicking = &IfaceVal{Tag: tag, Pay: map[int]Val{}, Sym: fmt.Sprintf("panicval%d", x.callSeq)}
	x.recovered = false
	x.runDefers(ps, x.curBlock)
	recovered := x.recovered
	x.panicking = saved
	x.recovered = false
	if !recovered || fn.Recover == nil {
		x.oblige("panic-escape", sanitize(what), []string{"C18.nopanic", "C20.nopanic"}, "no panic escapes (raised by "+what+")", ps.Guard, o.False())
		return
	}
	ps.Ghost["$panicked"] = o.True()
	for _, ins := range fn.Recover.Instrs {
		if ret, ok := ins.(*ssa.Return); ok {
			var rs []Val
			for _, r := range ret.Results {
				rs = append(rs, x.operand(ps, r))
			}
			x.returns = append(x.returns, &ReturnPoint{St: ps, Results: rs})
			return
		}
		x.step(ps, ins)
	}
	x.fail("recover block without return")
}

// ---- specification access to call results and locals ------------------------------------------------------------

func calleeShortName(c *ssa.CallCommon) string {
	if c.IsInvoke() {
		return c.Method.Name()
	}
	switch f := c.Value.(type) {
	case *ssa.Function:
		fn := f
		if o := fn.Origin(); o != nil {
			fn = o
		}
		name := fn.Name()
		if fn.Pkg != nil && fn.Signature.Recv() == nil {
			return fn.Pkg.Pkg.Name() + "." + name
		}
		return name
	case *ssa.Builtin:
		return f.Name()
	}
	// a call through a function value: the name of its type when it has one (AssertErrorFunc), else "dyn"
	if n, ok := c.Value.Type().(*types.Named); ok {
		return n.Obj().Name()
	}
	return "dyn"
}

// callSite finds the k-th call (in source order) whose callee is called `name` (name may omit the package
// qualifier) among the calls of the root function and, through calls of module functions that have no contract
// (they are verified through their bodies), the calls those make. For a call of the root function itself the
// instruction is returned and key is ""; for a call inside an inlined callee, key identifies it by the chain of call
// positions leading to it.
func (x *Exec) callSite(name string, k int) (ssa.CallInstruction, string) {
	type site struct {
		chain []token.Pos
		ord   int
		ins   ssa.CallInstruction
	}
	var sites []site
	n := 0
	var walk func(fn *ssa.Function, chain []token.Pos, depth int)
	walk = func(fn *ssa.Function, chain []token.Pos, depth int) {
		for _, b := range fn.Blocks {
			for _, ins := range b.Instrs {
				ci, ok := ins.(*ssa.Call)
				if !ok {
					continue
				}
				here := append(append([]token.Pos{}, chain...), ci.Pos())
				sn := calleeShortName(ci.Common())
				if sn == name || strings.HasSuffix(sn, "."+name) {
					sites = append(sites, site{here, n, ci})
					n++
					continue
				}
				if sc := ci.Common().StaticCallee(); sc != nil && depth < 3 && sc.Parent() == nil && len(sc.Blocks) > 0 {
					if pp := fnPkg(sc); pp != nil {
						if pk, ok := x.w.ByPath[pp.Pkg.Path()]; ok && pk.Contracts.Funcs[ContractKey(sc)] == nil {
							walk(sc, here, depth+1)
						}
					}
				}
			}
		}
	}
	walk(x.fn, nil, 0)
	less := func(a, b []token.Pos) bool {
		for i := 0; i < len(a) && i < len(b); i++ {
			if a[i] != b[i] {
				return a[i] < b[i]
			}
		}
		return len(a) < len(b)
	}
	sort.SliceStable(sites, func(i, j int) bool {
		if less(sites[i].chain, sites[j].chain) || less(sites[j].chain, sites[i].chain) {
			return less(sites[i].chain, sites[j].chain)
		}
		return sites[i].ord < sites[j].ord
	})
	if k < 0 || k >= len(sites) {
		return nil, ""
	}
	if len(sites[k].chain) == 1 {
		return sites[k].ins, ""
	}
	return sites[k].ins, posChainKey(sites[k].chain)
}

func posChainKey(chain []token.Pos) string {
	var sb strings.Builder
	for _, p := range chain {
		fmt.Fprintf(&sb, "%d/", int(p))
	}
	return sb.String()
}

// regOrArbitrary: the value of an SSA register in st; a register not computed on the path is arbitrary.
func (x *Exec) regOrArbitrary(st *State, v ssa.Value) Val {
	if r, ok := st.Regs[v]; ok {
		return r
	}
	if x.arbRegs == nil {
		x.arbRegs = map[ssa.Value]Val{}
	}
	if r, ok := x.arbRegs[v]; ok {
		return r
	}
	x.callSeq++
	r := x.freshVal(fmt.Sprintf("notrun%d.%s", x.callSeq, v.Name()), v.Type())
	x.arbRegs[v] = r
	return r
}

// localVar: the current contents of the local variable `name` of the root function (an Alloc).
func (x *Exec) localVar(st *State, name string) (Val, types.Type, bool) {
	name = x.w.currentLocalName(x.fn, name) // a renamed local keeps its recorded name as an alias
	for _, b := range x.fn.Blocks {
		for _, ins := range b.Instrs {
			a, ok := ins.(*ssa.Alloc)
			if !ok || a.Comment != name {
				continue
			}
			et := a.Type().Underlying().(*types.Pointer).Elem()
			pv, ok := st.Regs[a].(PtrVal)
			if !ok {
				return x.regOrArbitraryT(a, et), et, true
			}
			return x.readPtr(st, pv), et, true
		}
	}
	return nil, nil, false
}

func (x *Exec) regOrArbitraryT(v ssa.Value, t types.Type) Val {
	if x.arbRegs == nil {
		x.arbRegs = map[ssa.Value]Val{}
	}
	if r, ok := x.arbRegs[v]; ok {
		return r
	}
	x.callSeq++
	r := x.freshVal(fmt.Sprintf("notrun%d.%s", x.callSeq, v.Name()), t)
	x.arbRegs[v] = r
	return r
}
