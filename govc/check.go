package main

// `govc check`: decide one property — select the functions whose contracts carry it (plus every contract
// they rest on), generate and discharge all their obligations, report violations, write the evidence file.

import (
	_ "embed"
	"regexp"
	"crypto/sha1"
	"encoding/json"
	"flag"
	"fmt"
	"math/big"
	"os"
	"path/filepath"
	"runtime"
	"sort"
	"strconv"
	"strings"
	"sync"
	"time"
)

// packages whose every contracted function belongs to a property regardless of clause tags
var propPackages = map[string][]string{
	"C18": {"date", "roman", "sem", "size", "uu"},
}

type knownFinding struct {
	Prop       string
	Obligation string // obligation name prefix (without #n instance counters)
	What       string
	Example    string
	Fixed      bool
	Line       string
}

func loadKnownFindings(path string) ([]knownFinding, error) {
	data, err := os.ReadFile(path)
	if err != nil {
		if os.IsNotExist(err) {
			return nil, nil
		}
		return nil, err
	}
	var out []knownFinding
	for _, ln := range strings.Split(string(data), "\n") {
		t := strings.TrimSpace(ln)
		if t == "" || strings.HasPrefix(t, "#") {
			continue
		}
		kf := knownFinding{Line: t}
		switch {
		case strings.HasPrefix(t, "fixed:"):
			kf.Fixed = true
			t = strings.TrimSpace(t[len("fixed:"):])
		case strings.HasPrefix(t, "finding:"):
			t = strings.TrimSpace(t[len("finding:"):])
		default:
			return nil, fmt.Errorf("known-findings: bad line %q", ln)
		}
		head, what, _ := strings.Cut(t, "::")
		kf.What = strings.TrimSpace(what)
		for _, f := range strings.Fields(head) {
			k, v, ok := strings.Cut(f, "=")
			if !ok {
				continue
			}
			switch k {
			case "property":
				kf.Prop = v
			case "obligation":
				kf.Obligation = v
			case "example":
				kf.Example = v
			}
		}
		out = append(out, kf)
	}
	return out, nil
}

// stable obligation identity: name without the "#n" instance counter
// clauseIndexRe matches the ordinal of a clause within its contract ("ensures(4)"): a known finding may name the
// obligation by function, kind and label only, so that reordering clauses does not detach it.
var clauseIndexRe = regexp.MustCompile(`\(\d+\)`)

func stableName(n string) string {
	if i := strings.Index(n, "#"); i >= 0 {
		j := i + 1
		for j < len(n) && n[j] >= '0' && n[j] <= '9' {
			j++
		}
		return n[:i] + n[j:]
	}
	return n
}

func hasPropTag(tags []string, prop string) bool {
	for _, t := range tags {
		if t == prop || strings.HasPrefix(t, prop+".") {
			return true
		}
	}
	return false
}

func contractMentions(fc *FuncContract, prop string) bool {
	for _, cs := range [][]*Clause{fc.Requires, fc.Ensures} {
		for _, c := range cs {
			if hasPropTag(c.Tags, prop) {
				return true
			}
		}
	}
	if fc.PanicsIff != nil && hasPropTag(fc.PanicsIff.Tags, prop) {
		return true
	}
	for _, l := range fc.Loops {
		for _, c := range l.Invs {
			if hasPropTag(c.Tags, prop) {
				return true
			}
		}
	}
	if v, ok := fc.Opts["props"]; ok {
		for _, p := range strings.Split(v, ",") {
			if p == prop {
				return true
			}
		}
	}
	return false
}

type evidenceFile struct {
	PropertyID  string         `json:"property_id"`
	Tier        string         `json:"tier"`
	Seed        int            `json:"seed"`
	Level       string         `json:"level"`
	Coverage    map[string]any `json:"coverage"`
	Assumptions []string       `json:"assumptions"`
	WallS       float64        `json:"wall_s"`
	Violations  int            `json:"violations"`
}

func cmdCheck(args []string) int {
	fs := flag.NewFlagSet("check", flag.ExitOnError)
	repo := fs.String("repo", "/repo", "repository")
	prop := fs.String("prop", "", "property id")
	tier := fs.String("tier", "quick", "quick | thorough")
	out := fs.String("out", "", "evidence file")
	known := fs.String("known", "/verif/known-findings.txt", "known findings file")
	replayDir := fs.String("replaydir", "/verif/evidence/replay", "directory for replay files")
	expectFile := fs.String("expect", "/verif/expected.json", "expected minimum counts")
	level := fs.String("level", "proof", "evidence level to report")
	dumpFail := fs.String("dumpfail", "", "directory for the SMT scripts of failing obligations (debugging)")
	onlyPkgs := fs.String("pkgs", "", "tooling only: restrict the check to functions of these packages (comma separated); the expected-count guard is skipped")
	fs.Parse(args)
	if *prop == "" {
		fmt.Fprintln(os.Stderr, "check: -prop required")
		return 2
	}
	if t := os.Getenv("VERIF_TIER"); t == "quick" || t == "thorough" {
		*tier = t
	}
	seed := 0
	if s := os.Getenv("VERIF_SEED"); s != "" {
		seed, _ = strconv.Atoi(s)
	}
	t0 := time.Now()
	timeout := 60
	if *tier == "thorough" {
		timeout = 180
	}
	w, err := LoadWorld(*repo)
	if err != nil {
		fmt.Fprintln(os.Stderr, "govc: cannot load the repository:", err)
		return 2
	}
	w.computeUniverses()
	w.loadNames(namesFile())
	theWorld = w
	if errs := w.CheckContractsResolve(); len(errs) > 0 {
		// a contract that names no function means the code it specified is gone: every clause of it is undecided
		for _, e := range errs {
			fmt.Fprintln(os.Stderr, "govc:", e)
		}
	}
	kfs, err := loadKnownFindings(*known)
	if err != nil {
		fmt.Fprintln(os.Stderr, "govc:", err)
		return 2
	}
	// 1. primary functions
	all := w.Targets()
	byName := map[string]Target{}
	for _, t := range all {
		byName[InstName(t.Fn)] = t
	}
	primary := map[string]bool{}
	for _, t := range all {
		if contractMentions(t.Fc, *prop) {
			primary[InstName(t.Fn)] = true
		}
		for _, pn := range propPackages[*prop] {
			if t.Pk.Name == pn && !t.Fc.Lemma {
				primary[InstName(t.Fn)] = true
			}
		}
	}
	if *onlyPkgs != "" {
		keep := map[string]bool{}
		for _, p := range strings.Split(*onlyPkgs, ",") {
			keep[p] = true
		}
		for n := range primary {
			if !keep[byName[n].Pk.Name] {
				delete(primary, n)
			}
		}
		*expectFile = "/nonexistent"
		if len(primary) == 0 {
			fmt.Printf("govc: property %s: no function of package(s) %s\n", *prop, *onlyPkgs)
			return 0
		}
	}
	if len(primary) == 0 {
		fmt.Fprintf(os.Stderr, "govc: no contract carries property %s\n", *prop)
		return 2
	}
	// 2. verify, following callees transitively
	results := map[string]*FuncResult{}
	var mu sync.Mutex
	pending := []string{}
	for n := range primary {
		pending = append(pending, n)
	}
	sort.Strings(pending)
	for len(pending) > 0 {
		batch := pending
		pending = nil
		var wg sync.WaitGroup
		sem := make(chan struct{}, runtime.NumCPU())
		for _, n := range batch {
			mu.Lock()
			_, done := results[n]
			if !done {
				results[n] = nil
			}
			mu.Unlock()
			if done {
				continue
			}
			t := byName[n]
			wg.Add(1)
			go func(n string, t Target) {
				defer wg.Done()
				sem <- struct{}{}
				defer func() { <-sem }()
				r := w.VerifyFunction(t.Pk, t.Fn, t.Fc)
				mu.Lock()
				results[n] = r
				mu.Unlock()
			}(n, t)
		}
		wg.Wait()
		for _, n := range batch {
			r := results[n]
			if r == nil {
				continue
			}
			for _, c := range r.Callees {
				if _, ok := results[c]; !ok {
					if _, exists := byName[c]; exists {
						pending = append(pending, c)
					}
				}
			}
		}
		sort.Strings(pending)
	}
	var names []string
	for n := range results {
		names = append(names, n)
	}
	sort.Strings(names)
	var obls []*Obligation
	for _, n := range names {
		obls = append(obls, results[n].Obls...)
	}
	// language obligations of the packages involved
	pkgsSeen := map[string]bool{}
	for _, n := range names {
		pkgsSeen[byName[n].Pk.Name] = true
	}
	for pn := range pkgsSeen {
		for _, ob := range w.LangObligations(w.Pkgs[pn]) {
			if hasPropTag(ob.Tags, *prop) {
				obls = append(obls, ob)
			}
		}
	}
	// the vacuity guards of clauses that belong to other properties are left to those properties' checks
	{
		kept := obls[:0]
		for _, ob := range obls {
			if ob.Cover && (strings.Contains(ob.Name, "/cover(antecedent(") || strings.Contains(ob.Name, "/varies(")) && !hasPropTag(ob.CoverTags, *prop) {
				continue
			}
			kept = append(kept, ob)
		}
		obls = kept
	}
	workers := runtime.NumCPU() / 3
	if workers < 2 {
		workers = 2
	}
	SolveAll(obls, timeout, workers, false)
	// an obligation that ran out of time while the machine was saturated is tried once more with two workers and
	// twice the time before it is reported as undecided
	var again []*Obligation
	for _, ob := range obls {
		if !ob.Cover && (ob.Result.Status == "timeout" || ob.Result.Status == "unknown") {
			again = append(again, ob)
		}
	}
	retried := len(again)
	if retried > 0 && retried <= 24 {
		firstTry := map[*Obligation]*SolveResult{}
		for _, ob := range again {
			firstTry[ob] = ob.Result
		}
		SolveAll(again, 2*timeout, 2, false)
		for _, ob := range again {
			if ob.Result.Status == "timeout" || ob.Result.Status == "unknown" {
				ob.Result.Seconds += firstTry[ob].Seconds
			}
		}
		// a handful (at most three) still undecided: one last attempt, two at a time, with three times the budget (an undecided
		// obligation has to be reported as a violation, so the time is spent only where the alternative is an alarm)
		var last []*Obligation
		for _, ob := range again {
			if ob.Result.Status == "timeout" || ob.Result.Status == "unknown" {
				last = append(last, ob)
			}
		}
		if len(last) > 0 && len(last) <= 3 {
			prev := map[*Obligation]*SolveResult{}
			for _, ob := range last {
				prev[ob] = ob.Result
			}
			SolveAll(last, 3*timeout, 2, false)
			for _, ob := range last {
				if ob.Result.Status == "timeout" || ob.Result.Status == "unknown" {
					ob.Result.Seconds += prev[ob].Seconds
				}
			}
		}
	}

	// 3. classify
	type failure struct {
		ob     *Obligation
		reason string
	}
	var fails []failure
	var knownHits []string
	knownFailed := 0 // failed obligations that belong to a listed known finding
	discharged, total, headline, headlineOK := 0, 0, 0, 0
	solverCount := map[string]int{}
	solverTime := map[string]float64{}
	bounded := 0
	coverUnconfirmed := 0
	trustedSet := map[string]bool{}
	inlinedSet := map[string]bool{}
	notesSet := map[string]bool{}
	var funcErrs []string
	for _, n := range names {
		r := results[n]
		for _, t := range r.Trusted {
			trustedSet[t] = true
		}
		for _, t := range r.Inlined {
			inlinedSet[t] = true
		}
		for _, t := range r.Notes {
			notesSet[t] = true
		}
		if r.Err != "" {
			funcErrs = append(funcErrs, n+": "+r.Err)
		}
	}
	// the antecedent of a conditional clause of a generic function may be unsatisfiable for some type arguments
	// (e.g. "value is a float" for the integer instances): it is vacuous only if no instance can satisfy it
	antecedentAlive := map[string]bool{}
	antecedentKey := func(ob *Obligation) string {
		fn := ob.Fn
		if k := strings.Index(fn, "["); k >= 0 {
			fn = fn[:k]
		}
		return fn + "/" + ob.Name[strings.Index(ob.Name, "/cover(")+1:]
	}
	// likewise the precondition of a generic function (or of one of its closures) may be unsatisfiable for some type
	// arguments - the closure castToFunc makes for types that have the interface does not exist for those that lack
	// it: such an instance is dead code, and the guard is met when some instance satisfies it
	coverAlive := map[string]bool{}
	for _, ob := range obls {
		if ob.Cover && strings.Contains(ob.Name, "/cover(antecedent(") && ob.Result.Status != "unsat" && ob.Result.Status != "error" {
			antecedentAlive[antecedentKey(ob)] = true
		}
		if ob.Cover && strings.Contains(ob.Fn, "[") && ob.Result.Status != "unsat" && ob.Result.Status != "error" {
			coverAlive[antecedentKey(ob)] = true
		}
	}
	for _, ob := range obls {
		if ob.Cover {
			if strings.Contains(ob.Name, "/cover(antecedent(") && (antecedentAlive[antecedentKey(ob)] || strings.Contains(ob.Fn, "[")) {
				// (an instance of a generic function: the clause may be meant for other type arguments, and the
				// other instances need not be part of this property's check)
				if ob.Result.Status != "sat" {
					coverUnconfirmed++
				}
				continue
			}
			if strings.Contains(ob.Fn, "[") && (strings.Contains(ob.Name, "/cover(requires)") || strings.Contains(ob.Name, "/cover(return)") || strings.Contains(ob.Name, "/cover(step")) && coverAlive[antecedentKey(ob)] {
				if ob.Result.Status != "sat" {
					coverUnconfirmed++
				}
				continue
			}
			if ob.Result.Status == "unsat" || ob.Result.Status == "error" {
				if ob.Kind == "varies" {
					fails = append(fails, failure{ob, "never happens: " + ob.Text})
					continue
				}
				fails = append(fails, failure{ob, "vacuity guard: " + ob.Text + " is contradictory"})
			} else if ob.Result.Status != "sat" {
				coverUnconfirmed++
			}
			continue
		}
		total++
		isHead := hasPropTag(ob.Tags, *prop)
		if isHead {
			headline++
		}
		if ob.Bounded != "" {
			bounded++
		}
		if ob.Result.Status == "unsat" {
			discharged++
			if isHead {
				headlineOK++
			}
			solverCount[ob.Result.Solver]++
			solverTime[ob.Result.Solver] += ob.Result.Seconds
			continue
		}
		fails = append(fails, failure{ob, ob.Result.Status})
		if *dumpFail != "" && ob.x != nil {
			os.MkdirAll(*dumpFail, 0o755)
			os.WriteFile(filepath.Join(*dumpFail, sanitize(ob.Name)+".smt2"), []byte(ob.Script(true)), 0o644)
		}
	}
	// 4. report
	violations := 0
	os.MkdirAll(*replayDir, 0o755)
	printed := map[string]bool{}
	// group failing obligations by clause: function / kind / label without case and return-point counters
	groupOf := func(ob *Obligation) string {
		n := stableName(ob.Name)
		for _, marker := range []string{".case", ".part"} {
			if i := strings.Index(n, marker); i >= 0 {
				j := i + len(marker)
				for j < len(n) && n[j] >= '0' && n[j] <= '9' {
					j++
				}
				n = n[:i] + n[j:]
			}
		}
		return n
	}
	groups := map[string][]failure{}
	var order []string
	for _, f := range fails {
		g := groupOf(f.ob)
		if _, ok := groups[g]; !ok {
			order = append(order, g)
		}
		groups[g] = append(groups[g], f)
	}
	for _, g := range order {
		fs := groups[g]
		// known finding?
		matched := false
		for _, kf := range kfs {
			if kf.Fixed || kf.Prop != *prop {
				continue
			}
			if strings.HasPrefix(g, kf.Obligation) || strings.HasPrefix(clauseIndexRe.ReplaceAllString(g, ""), kf.Obligation) {
				matched = true
				line := fmt.Sprintf("KNOWN-FINDING: property=%s %s", *prop, kf.What)
				if !printed[line] {
					printed[line] = true
					fmt.Println(line)
					knownHits = append(knownHits, kf.Obligation)
				}
			}
		}
		if matched {
			knownFailed += len(fs)
			continue
		}
		violations++
		h := sha1.Sum([]byte(g))
		rp := filepath.Join(*replayDir, fmt.Sprintf("%s-%x.json", *prop, h[:6]))
		// try to replay the sat members of the group until one is confirmed on the real code (at most 3 attempts)
		var best *ReplayResult
		bestOb := fs[0].ob
		tries := 0
		for _, f := range fs {
			if f.ob.Result.Status != "sat" || tries >= 3 || f.ob.x == nil {
				continue
			}
			tries++
			rep := w.Replay(f.ob, *repo)
			if !rep.Confirmed && strings.Contains(rep.Note, "too long for replay") {
				// the solver's witness is longer than can be replayed: ask again for a short one
				full := f.ob.Result
				f.ob.SmallLen = 12
				if small := f.ob.Solve(timeout, false); small.Status == "sat" {
					f.ob.Result = small
					rep = w.Replay(f.ob, *repo)
				}
				if !rep.Confirmed {
					f.ob.Result = full
				}
				f.ob.SmallLen = 0
			}
			if best == nil || (rep.Confirmed && !best.Confirmed) {
				best, bestOb = rep, f.ob
			}
			if rep.Confirmed {
				break
			}
		}
		if *prop == "C20" && (best == nil || !best.Confirmed) {
			// the counterexample of a C20 obligation is a behaviour of unknown callees, which the model replay
			// cannot script: search the scripted-behaviour space for a concrete failing input instead
			if wr := c20Witness(*repo); wr != nil {
				best = wr
			}
		}
		var members []string
		for _, f := range fs {
			members = append(members, f.ob.Name+": "+f.reason)
		}
		rec := map[string]any{
			"property": *prop, "obligation": g, "failing_instances": members, "kind": bestOb.Kind, "function": bestOb.Fn, "clause": bestOb.Text,
			"position": bestOb.Pos, "status": bestOb.Result.Status, "solver": bestOb.Result.Solver, "tried": bestOb.Result.Tried,
			"solver_output": truncate(bestOb.Result.Output, 4000),
		}
		suffix := " no-failing-input-found"
		if best != nil {
			rec["replay"] = best
			if best.Confirmed {
				suffix = ""
			}
		}
		data, _ := json.MarshalIndent(rec, "", " ")
		os.WriteFile(rp, data, 0o644)
		fmt.Printf("VIOLATION property=%s replay=%s obligation=%s%s\n", *prop, rp, g, suffix)
	}
	for _, fe := range funcErrs {
		// a function that left the verified subset: all its obligations are undecided
		violations++
		h := sha1.Sum([]byte(fe))
		rp := filepath.Join(*replayDir, fmt.Sprintf("%s-%x.json", *prop, h[:6]))
		rec := map[string]any{"property": *prop, "obligation": "all obligations of " + fe, "status": "undecided: function outside the verified subset or contract does not apply"}
		suffix := " no-failing-input-found"
		if *prop == "C20" {
			if wr := c20Witness(*repo); wr != nil {
				rec["replay"] = wr
				suffix = ""
			}
		}
		data, _ := json.MarshalIndent(rec, "", " ")
		os.WriteFile(rp, data, 0o644)
		fmt.Printf("VIOLATION property=%s replay=%s obligation=%q%s\n", *prop, rp, fe, suffix)
	}
	// expected-count guard
	exp := loadExpected(*expectFile)
	if e, ok := exp[*prop]; ok {
		if headline < e.Headline || len(names) < e.Functions {
			fmt.Fprintf(os.Stderr, "govc: vacuity guard: property %s has %d headline obligations over %d functions, expected at least %d over %d\n", *prop, headline, len(names), e.Headline, e.Functions)
			violations++
			fmt.Printf("VIOLATION property=%s replay=%s obligation=expected-count-guard no-failing-input-found\n", *prop, *expectFile)
		}
	}
	// 5. evidence
	var samples []any
	for _, ob := range obls {
		if hasPropTag(ob.Tags, *prop) && !ob.Cover && len(samples) < 6 {
			samples = append(samples, map[string]any{"obligation": ob.Name, "clause": ob.Text, "status": ob.Result.Status, "solver": ob.Result.Solver, "seconds": round3(ob.Result.Seconds)})
		}
	}
	var trusted, assumptions []string
	for t := range trustedSet {
		if strings.HasPrefix(t, "TRUSTED AXIOM") || strings.HasPrefix(t, "ASSUMED CONTRACT") || strings.HasPrefix(t, "unknown callee") {
			trusted = append(trusted, t)
			continue
		}
		trusted = append(trusted, "assumed contract of "+t)
	}
	sort.Strings(trusted)
	trusted = append([]string{"go/types + go/ssa (x/tools v0.29.0) SSA construction", "govc VC generator and SMT-LIB printer", "solver answers (z3 4.8.12, z3 5.1.0, cvc5 1.0.3; first definite answer wins)"}, trusted...)
	for t := range notesSet {
		assumptions = append(assumptions, t)
	}
	for t := range inlinedSet {
		assumptions = append(assumptions, "verified through its body at each call site (inline): "+t)
	}
	assumptions = append(assumptions, "termination is not proved except for loops with a decreases clause",
		"configuration variables (config) do not change during a call; constvar tables are never written")
	sort.Strings(assumptions)
	bySolver := map[string]any{}
	for s, c := range solverCount {
		bySolver[s] = map[string]any{"discharged": c, "seconds": round3(solverTime[s])}
	}
	lvl := *level
	if lvl == "proof" && (discharged+knownFailed != total || violations > 0) {
		lvl = "other"
	}
	var slowest []map[string]any
	{
		byTime := append([]*Obligation{}, obls...)
		sort.SliceStable(byTime, func(i, j int) bool { return byTime[i].Result.Seconds > byTime[j].Result.Seconds })
		for i, ob := range byTime {
			if i >= 5 {
				break
			}
			slowest = append(slowest, map[string]any{"obligation": ob.Name, "solver": ob.Result.Solver, "seconds": round3(ob.Result.Seconds)})
		}
	}
	ev := evidenceFile{PropertyID: *prop, Tier: *tier, Seed: seed, Level: lvl, WallS: round3(time.Since(t0).Seconds()), Violations: violations,
		Assumptions: assumptions,
		Coverage: map[string]any{
			// obligations: those the proof-level claim consists of. An obligation that fails as a *listed known finding*
			// is not part of that claim (the property is known not to hold there); it is counted separately.
			"obligations": total - knownFailed, "discharged": discharged,
			"obligations_generated": total, "known_finding_obligations": knownFailed,
			"headline_obligations": headline, "headline_discharged": headlineOK,
			"bounded_obligations": bounded,
			"cover_checks_unconfirmed": coverUnconfirmed,
			"functions_under_contract": names,
			"checker_cmd": fmt.Sprintf("/verif/bin/govc check -prop %s -tier %s -repo %s", *prop, *tier, *repo),
			"trusted_base": trusted, "by_solver": bySolver, "samples": samples,
			"known_findings_hit": knownHits,
			"solver_timeout_s": timeout, "retried_after_timeout": retried, "slowest": slowest,
			"explanation": fmt.Sprintf("contract-based deductive verification: %d functions under contract, %d obligations generated from /repo's SSA, %d discharged (unsat), %d failing as listed known findings (reported as KNOWN-FINDING, counted under known_finding_obligations and not under obligations); %d carry property tag %s", len(names), total, discharged, knownFailed, headline, *prop),
		}}
	if *out != "" {
		os.MkdirAll(filepath.Dir(*out), 0o755)
		data, _ := json.MarshalIndent(ev, "", " ")
		os.WriteFile(*out, data, 0o644)
	}
	fmt.Fprintf(os.Stderr, "govc: property %s: %d functions, %d/%d obligations discharged (%d/%d headline), %d violations, %.1fs\n",
		*prop, len(names), discharged, total, headlineOK, headline, violations, time.Since(t0).Seconds())
	if violations > 0 {
		return 1
	}
	return 0
}

type expectEntry struct {
	Headline  int `json:"headline"`
	Functions int `json:"functions"`
}

func loadExpected(path string) map[string]expectEntry {
	m := map[string]expectEntry{}
	data, err := os.ReadFile(path)
	if err != nil {
		return m
	}
	json.Unmarshal(data, &m)
	return m
}

func truncate(s string, n int) string {
	if len(s) > n {
		return s[:n] + "…"
	}
	return s
}

func round3(f float64) float64 { return float64(int(f*1000+0.5)) / 1000 }

type ReplayResult struct {
	Confirmed bool              `json:"confirmed"`
	Note      string            `json:"note"`
	Inputs    map[string]string `json:"inputs,omitempty"`
	Output    string            `json:"output,omitempty"`
	TestFile  string            `json:"test_file,omitempty"`
	Package   string            `json:"package,omitempty"`
}

func filterModel(m map[string]string) map[string]string {
	return map[string]string{"model": renderModel(m)}
}

// smtInt parses an SMT-LIB integer / bit-vector literal.
func smtInt(v string) (*big.Int, bool) {
	v = strings.TrimSpace(v)
	switch {
	case strings.HasPrefix(v, "#x"):
		n, ok := new(big.Int).SetString(v[2:], 16)
		return n, ok
	case strings.HasPrefix(v, "#b"):
		n, ok := new(big.Int).SetString(v[2:], 2)
		return n, ok
	case strings.HasPrefix(v, "(-"):
		n, ok := new(big.Int).SetString(strings.TrimSpace(strings.Trim(v[2:], "() ")), 10)
		if ok {
			n.Neg(n)
		}
		return n, ok
	}
	n, ok := new(big.Int).SetString(v, 10)
	return n, ok
}

//go:embed c20witness_test.go.txt
var c20WitnessSrc string

var c20WitnessMemo struct {
	done bool
	res  *ReplayResult
}

// c20Witness runs the scripted-behaviour search of c20witness_test.go.txt against the real package (once per
// check) and returns a confirmed replay result when it finds inputs on which a helper reports wrongly, stays
// silent wrongly or lets a panic escape; nil when it finds none (or cannot run).
func c20Witness(repo string) *ReplayResult {
	if c20WitnessMemo.done {
		return c20WitnessMemo.res
	}
	c20WitnessMemo.done = true
	out, err := runReplayTest(repo, "test", c20WitnessSrc)
	if err != nil || !strings.Contains(out, "VERIFWITNESSDONE") {
		return nil
	}
	var ws []string
	for _, ln := range strings.Split(out, "\n") {
		if strings.HasPrefix(ln, "VERIFWITNESS ") {
			ws = append(ws, strings.TrimPrefix(ln, "VERIFWITNESS "))
		}
	}
	if len(ws) == 0 {
		return nil
	}
	c20WitnessMemo.res = &ReplayResult{Confirmed: true, Package: "test", Output: strings.Join(ws, "\n"),
		Note: "no model replay (the counterexample is a behaviour of unknown callees); test_file is govc/c20witness_test.go.txt, injected by -overlay as test/zz_verif_replay_test.go: a search over scripted marshaler / hook / predicate behaviours on the real helpers found these inputs, on which the helper's reports differ from the oracle written from the property statement (or a panic escaped)",
		TestFile: c20WitnessSrc}
	return c20WitnessMemo.res
}
