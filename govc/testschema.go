package main

// Assumed contracts used by package test (property C20): testify's assert functions, the TestingT interface,
// error messages, regexp.MatchString with a non-constant pattern, strings.HasPrefix/HasSuffix, debug.Stack.
//
// A "report" is a call of TestingT.Errorf; the ghost counter `reports` counts them. testify's assert.X(t, ...)
// returns whether the asserted condition holds and calls t.Errorf exactly when it does not (assumed).

import (
	"fmt"
	"math/big"

	"golang.org/x/tools/go/ssa"
)

func (x *Exec) reportIfNot(st *State, cond *Term) *Term {
	o := x.o
	cur, _ := st.Ghost["reports"].(*Term)
	if cur == nil {
		cur = o.Int(0)
	}
	st.Ghost["reports"] = o.Add(cur, o.Ite(cond, o.Int(0), o.Int(1)))
	return cond
}

// errMsg: the text of err.Error(), a ghost component of the error value.
func (x *Exec) errMsg(ev ErrVal) StrVal {
	o := x.o
	arr, ok1 := ev.Data["msg.arr"]
	ln, ok2 := ev.Data["msg.len"]
	if !ok1 || !ok2 {
		x.fail("the message of this error value is not modelled")
	}
	o.SetRange(ln, big.NewInt(0), big.NewInt(1<<62))
	return StrVal{Arr: arr, Off: o.Int(0), Len: ln}
}

// hasAffix: strings.HasPrefix / HasSuffix as predicates of the two contents, with their defining facts.
func (x *Exec) hasAffix(s, p StrVal, suffix bool) *Term {
	o := x.o
	if n, ok := p.Len.ConstInt64(); ok && n >= 0 && n <= 64 {
		// an affix of known length: the comparison written out byte by byte (no quantifier; any mode)
		base := o.Idx(0)
		if suffix {
			base = o.IdxSub(s.Len, p.Len)
		}
		cs := []*Term{o.IdxLe(p.Len, s.Len)}
		for i := int64(0); i < n; i++ {
			cs = append(cs, o.Eq(o.SelByte(s.Arr, o.IdxAdd(s.Off, o.IdxAdd(base, o.Idx(i)))), o.SelByte(p.Arr, o.IdxAdd(p.Off, o.Idx(i)))))
		}
		return o.And(cs...)
	}
	if o.M.BV {
		x.fail("HasPrefix / HasSuffix with an affix of unknown length needs `mode int`")
	}
	name := "seq.hasprefix"
	if suffix {
		name = "seq.hassuffix"
	}
	r := o.UF(name, BoolSort, s.Arr, s.Off, s.Len, p.Arr, p.Off, p.Len)
	if x.fdDone == nil {
		x.fdDone = map[*Term]bool{}
	}
	if !x.fdDone[r] {
		x.fdDone[r] = true
		i := o.BoundVar("i", IntSort)
		base := o.Int(0)
		if suffix {
			base = o.Sub(s.Len, p.Len)
		}
		def := o.And(o.Le(p.Len, s.Len), o.Forall([]*Term{i}, o.Implies(o.And(o.Le(o.Int(0), i), o.Lt(i, p.Len)),
			o.Eq(o.SelByte(s.Arr, o.IdxAdd(s.Off, o.Add(base, i))), o.SelByte(p.Arr, o.IdxAdd(p.Off, i))))))
		x.assumeClosed(o.Implies(o.And(o.Le(o.Int(0), s.Len), o.Le(o.Int(0), p.Len)), o.Eq(r, def)))
	}
	return r
}

func (x *Exec) reTerms(p, s StrVal) (valid, matches *Term) {
	o := x.o
	valid = o.UF("re.valid", BoolSort, p.Arr, p.Off, p.Len)
	matches = o.And(valid, o.UF("re.matches", BoolSort, p.Arr, p.Off, p.Len, s.Arr, s.Off, s.Len))
	return
}

func init() {
	assertPkg := "github.com/stretchr/testify/assert."
	needInt := func(x *Exec) {
		if x.o.M.BV {
			x.fail("the testify schemas need `mode int`")
		}
	}
	extSchemas[assertPkg+"Error"] = func(x *Exec, st *State, fn *ssa.Function, args []Val, c *ssa.CallCommon) Val {
		needInt(x)
		return x.reportIfNot(st, x.o.Not(args[1].(ErrVal).Nil))
	}
	extSchemas[assertPkg+"NoError"] = func(x *Exec, st *State, fn *ssa.Function, args []Val, c *ssa.CallCommon) Val {
		needInt(x)
		return x.reportIfNot(st, args[1].(ErrVal).Nil)
	}
	extSchemas[assertPkg+"True"] = func(x *Exec, st *State, fn *ssa.Function, args []Val, c *ssa.CallCommon) Val {
		needInt(x)
		return x.reportIfNot(st, args[1].(*Term))
	}
	extSchemas[assertPkg+"EqualError"] = func(x *Exec, st *State, fn *ssa.Function, args []Val, c *ssa.CallCommon) Val {
		needInt(x)
		ev := args[1].(ErrVal)
		want := args[2].(StrVal)
		o := x.o
		cond := o.And(o.Not(ev.Nil), x.seqEq(x.errMsg(ev), want))
		return x.reportIfNot(st, cond)
	}
	extSchemas[assertPkg+"Fail"] = func(x *Exec, st *State, fn *ssa.Function, args []Val, c *ssa.CallCommon) Val {
		needInt(x)
		return x.reportIfNot(st, x.o.False())
	}
	// assert.FailNowf: reports, then stops the test through t.FailNow (which does not return in a real test; with
	// an arbitrary TestingT it may)
	extSchemas[assertPkg+"FailNowf"] = func(x *Exec, st *State, fn *ssa.Function, args []Val, c *ssa.CallCommon) Val {
		needInt(x)
		x.reportIfNot(st, x.o.False()) // Errorf
		return x.reportIfNot(st, x.o.False()) // FailNow
	}
	// assert.Nil(t, object): holds iff object is the nil interface or holds a nil pointer / slice / func / map / chan
	extSchemas[assertPkg+"Nil"] = func(x *Exec, st *State, fn *ssa.Function, args []Val, c *ssa.CallCommon) Val {
		needInt(x)
		return x.reportIfNot(st, x.ifaceHoldsNil(args[1]))
	}
	// assert.Equal(t, expected, actual): ObjectsAreEqual - two []byte values are equal iff both are nil or neither
	// is and bytes.Equal; other values by reflect.DeepEqual (modelled for strings only)
	extSchemas[assertPkg+"Equal"] = func(x *Exec, st *State, fn *ssa.Function, args []Val, c *ssa.CallCommon) Val {
		needInt(x)
		return x.reportIfNot(st, x.objectsAreEqual(st, args[1], args[2]))
	}
	// assert.Empty(t, object): whether a value counts as empty (zero value, nil, zero length) is not modelled: the
	// outcome is arbitrary; a report is made exactly when it does not hold
	extSchemas[assertPkg+"Empty"] = func(x *Exec, st *State, fn *ssa.Function, args []Val, c *ssa.CallCommon) Val {
		needInt(x)
		x.callSeq++
		return x.reportIfNot(st, x.o.Fresh(fmt.Sprintf("isempty%d", x.callSeq), BoolSort))
	}
	extSchemas["fmt.Sprintf"] = func(x *Exec, st *State, fn *ssa.Function, args []Val, c *ssa.CallCommon) Val {
		// the text is used for messages only: arbitrary
		x.callSeq++
		return x.freshVal(fmt.Sprintf("sprintf%d", x.callSeq), typString)
	}
	extSchemas["runtime/debug.Stack"] = func(x *Exec, st *State, fn *ssa.Function, args []Val, c *ssa.CallCommon) Val {
		x.callSeq++
		sl := x.freshSlice(fmt.Sprintf("stack%d", x.callSeq), typByte)
		x.assume(x.o.Lt(sl.Reg, st.Alloc))
		return sl
	}
	extSchemas["strings.HasPrefix"] = func(x *Exec, st *State, fn *ssa.Function, args []Val, c *ssa.CallCommon) Val {
		return x.hasAffix(args[0].(StrVal), args[1].(StrVal), false)
	}
	extSchemas["strings.HasSuffix"] = func(x *Exec, st *State, fn *ssa.Function, args []Val, c *ssa.CallCommon) Val {
		return x.hasAffix(args[0].(StrVal), args[1].(StrVal), true)
	}
	// regexp.MatchString(pattern, s): (matched, err); err == nil iff the pattern compiles; matched only then
	extSchemas["regexp.MatchString"] = func(x *Exec, st *State, fn *ssa.Function, args []Val, c *ssa.CallCommon) Val {
		needInt(x)
		o := x.o
		valid, matches := x.reTerms(args[0].(StrVal), args[1].(StrVal))
		x.callSeq++
		ev := x.freshErr(fmt.Sprintf("recompile%d.err", x.callSeq))
		for k := range ev.Is {
			ev.Is[k] = o.False()
		}
		for k := range ev.As {
			ev.As[k] = o.False()
		}
		ev.Nil = valid
		return TupleVal{matches, ev}
	}
}

// ifaceHoldsNil: testify's isNil(object) for an interface value of statically known dynamic type.
func (x *Exec) ifaceHoldsNil(v Val) *Term {
	o := x.o
	if ev, isErr := v.(ErrVal); isErr {
		return ev.Nil // an error value passed as interface{}: nil iff it is the nil error (typed nil pointers aside)
	}
	iv, ok := v.(IfaceVal)
	if !ok {
		x.fail("assert.Nil on %T", v)
	}
	id, isConst := iv.Tag.ConstInt64()
	if !isConst || iv.Sym != "" {
		x.fail("assert.Nil on an interface value of unknown dynamic type")
	}
	if id == 0 {
		return o.True()
	}
	switch p := iv.Pay[int(id)].(type) {
	case SliceVal:
		return o.Eq(p.Reg, o.Int(0))
	case PtrVal:
		return p.Nil
	case FuncVal:
		return x.funcIsNil(p)
	case StrVal, *Term, StructVal:
		return o.False()
	}
	x.fail("assert.Nil: payload %T", iv.Pay[int(id)])
	return nil
}

// objectsAreEqual: testify's ObjectsAreEqual for two interface values of statically known dynamic types.
func (x *Exec) objectsAreEqual(st *State, a, b Val) *Term {
	o := x.o
	av, ok1 := a.(IfaceVal)
	bv, ok2 := b.(IfaceVal)
	if !ok1 || !ok2 {
		x.fail("assert.Equal on %T, %T", a, b)
	}
	ia, c1 := av.Tag.ConstInt64()
	ib, c2 := bv.Tag.ConstInt64()
	if !c1 || !c2 || av.Sym != "" || bv.Sym != "" {
		x.fail("assert.Equal on interface values of unknown dynamic type")
	}
	if ia != ib {
		return o.False() // different dynamic types are never DeepEqual (and []byte needs both)
	}
	if ia == 0 {
		return o.True()
	}
	pa, pb := av.Pay[int(ia)], bv.Pay[int(ib)]
	switch ta := pa.(type) {
	case StrVal:
		return x.seqEq(ta, pb.(StrVal))
	case SliceVal:
		tb := pb.(SliceVal)
		an, bn := o.Eq(ta.Reg, o.Int(0)), o.Eq(tb.Reg, o.Int(0))
		return o.Ite(o.Or(an, bn), o.And(an, bn), x.seqEq(x.seqView(st, ta), x.seqView(st, tb)))
	case *Term:
		return o.Eq(ta, pb.(*Term))
	}
	// reflect.DeepEqual of values of this type is not modelled: the outcome is arbitrary
	x.callSeq++
	x.note("assert.Equal on %T values: reflect.DeepEqual is not modelled, the outcome is arbitrary", pa)
	return o.Fresh(fmt.Sprintf("deepequal%d", x.callSeq), BoolSort)
}

// A few more library functions that routine refactorings reach for (exact contracts over the byte contents).
func init() {
	view := func(x *Exec, st *State, v Val) StrVal { return x.seqView(st, v) }
	extSchemas["bytes.Equal"] = func(x *Exec, st *State, fn *ssa.Function, args []Val, c *ssa.CallCommon) Val {
		return x.seqEq(view(x, st, args[0]), view(x, st, args[1]))
	}
	extSchemas["bytes.HasPrefix"] = func(x *Exec, st *State, fn *ssa.Function, args []Val, c *ssa.CallCommon) Val {
		return x.hasAffix(view(x, st, args[0]), view(x, st, args[1]), false)
	}
	extSchemas["bytes.HasSuffix"] = func(x *Exec, st *State, fn *ssa.Function, args []Val, c *ssa.CallCommon) Val {
		return x.hasAffix(view(x, st, args[0]), view(x, st, args[1]), true)
	}
	// strings.TrimPrefix(s, p): s without its leading p when it has one, else s
	extSchemas["strings.TrimPrefix"] = func(x *Exec, st *State, fn *ssa.Function, args []Val, c *ssa.CallCommon) Val {
		o := x.o
		if o.M.BV {
			x.fail("strings.TrimPrefix needs `mode int`")
		}
		s, p := args[0].(StrVal), args[1].(StrVal)
		has := x.hasAffix(s, p, false)
		return StrVal{Arr: s.Arr, Off: o.Ite(has, o.Add(s.Off, p.Len), s.Off), Len: o.Ite(has, o.Sub(s.Len, p.Len), s.Len)}
	}
}
