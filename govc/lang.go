package main

// Language obligations: `lang [tags] A == B` / `A <= B` between regular expressions (package regexp variables or
// `regex` items of the contract file), decided in the SMT-LIB theory of regular languages.

import (
	"fmt"
	"regexp/syntax"
	"strings"
	"unicode/utf8"
)

func smtStrLit(s string) string {
	var sb strings.Builder
	sb.WriteByte('"')
	for i := 0; i < len(s); i++ {
		c := s[i]
		if c == '"' {
			sb.WriteString(`""`)
		} else if c < 0x20 || c >= 0x7f || c == '\\' {
			fmt.Fprintf(&sb, `\u{%x}`, c)
		} else {
			sb.WriteByte(c)
		}
	}
	sb.WriteByte('"')
	return sb.String()
}

func regLan(re *syntax.Regexp) (string, error) {
	switch re.Op {
	case syntax.OpEmptyMatch:
		return `(str.to_re "")`, nil
	case syntax.OpNoMatch:
		return "re.none", nil
	case syntax.OpLiteral:
		var parts []string
		for _, r := range re.Rune {
			if r >= utf8.RuneSelf {
				return "", fmt.Errorf("non-ASCII literal")
			}
			if re.Flags&syntax.FoldCase != 0 && ((r >= 'a' && r <= 'z') || (r >= 'A' && r <= 'Z')) {
				lo, up := r|0x20, r&^0x20
				if lo == 'k' || lo == 's' {
					return "", fmt.Errorf("case folding of %c has non-ASCII members", r)
				}
				parts = append(parts, fmt.Sprintf("(re.union (str.to_re %s) (str.to_re %s))", smtStrLit(string(up)), smtStrLit(string(lo))))
			} else {
				parts = append(parts, fmt.Sprintf("(str.to_re %s)", smtStrLit(string(r))))
			}
		}
		if len(parts) == 1 {
			return parts[0], nil
		}
		return "(re.++ " + strings.Join(parts, " ") + ")", nil
	case syntax.OpCharClass:
		var parts []string
		for i := 0; i+1 < len(re.Rune); i += 2 {
			lo, hi := re.Rune[i], re.Rune[i+1]
			if hi >= utf8.RuneSelf {
				return "", fmt.Errorf("non-ASCII character class")
			}
			if lo == hi {
				parts = append(parts, fmt.Sprintf("(str.to_re %s)", smtStrLit(string(lo))))
			} else {
				parts = append(parts, fmt.Sprintf("(re.range %s %s)", smtStrLit(string(lo)), smtStrLit(string(hi))))
			}
		}
		if len(parts) == 0 {
			return "re.none", nil
		}
		if len(parts) == 1 {
			return parts[0], nil
		}
		return "(re.union " + strings.Join(parts, " ") + ")", nil
	case syntax.OpCapture:
		return regLan(re.Sub[0])
	case syntax.OpStar, syntax.OpPlus, syntax.OpQuest:
		s, err := regLan(re.Sub[0])
		if err != nil {
			return "", err
		}
		op := map[syntax.Op]string{syntax.OpStar: "re.*", syntax.OpPlus: "re.+", syntax.OpQuest: "re.opt"}[re.Op]
		return "(" + op + " " + s + ")", nil
	case syntax.OpRepeat:
		s, err := regLan(re.Sub[0])
		if err != nil {
			return "", err
		}
		if re.Max < 0 {
			return fmt.Sprintf("(re.++ ((_ re.^ %d) %s) (re.* %s))", re.Min, s, s), nil
		}
		return fmt.Sprintf("((_ re.loop %d %d) %s)", re.Min, re.Max, s), nil
	case syntax.OpConcat, syntax.OpAlternate:
		var parts []string
		for _, sub := range re.Sub {
			if sub.Op == syntax.OpBeginText || sub.Op == syntax.OpEndText {
				continue
			}
			s, err := regLan(sub)
			if err != nil {
				return "", err
			}
			parts = append(parts, s)
		}
		if len(parts) == 0 {
			return `(str.to_re "")`, nil
		}
		if len(parts) == 1 {
			return parts[0], nil
		}
		op := "re.++"
		if re.Op == syntax.OpAlternate {
			op = "re.union"
		}
		return "(" + op + " " + strings.Join(parts, " ") + ")", nil
	case syntax.OpBeginText, syntax.OpEndText:
		return `(str.to_re "")`, nil
	}
	return "", fmt.Errorf("regexp operator %v is outside the modelled subset", re.Op)
}

// langPattern resolves a name of a lang obligation to a pattern (whole-string language).
func (w *World) langPattern(pk *Pkg, name string) (string, error) {
	if pat, ok := pk.Contracts.Regexes[name]; ok {
		return "^(?:" + pat + ")$", nil
	}
	if gi, ok := pk.Inits[name]; ok && gi.Kind == "regexp" {
		re, err := syntax.Parse(gi.Pattern, syntax.Perl)
		if err != nil {
			return "", err
		}
		if !(re.Op == syntax.OpConcat && len(re.Sub) >= 2 && re.Sub[0].Op == syntax.OpBeginText && re.Sub[len(re.Sub)-1].Op == syntax.OpEndText) {
			return "", fmt.Errorf("regexp variable %s is not anchored with ^...$", name)
		}
		return gi.Pattern, nil
	}
	return "", fmt.Errorf("unknown regular expression %q", name)
}

// LangObligations builds the obligations of a package's `lang` items.
func (w *World) LangObligations(pk *Pkg) []*Obligation {
	var out []*Obligation
	for i, l := range pk.Contracts.Langs {
		ob := &Obligation{Name: fmt.Sprintf("%s/lang#%d(%s)", pk.Name, i, strings.ReplaceAll(l.Text, " ", "")), Kind: "lang", Tags: l.Tags, Fn: pk.Name + "/lang",
			Text: l.Text, Pos: fmt.Sprintf("%s:%d", relPath(w.RepoDir, pk.Contracts.File), l.Line)}
		if len(l.Tags) > 0 {
			ob.Name += "[" + strings.Join(l.Tags, " ") + "]"
		}
		op := "=="
		parts := strings.SplitN(l.Text, "==", 2)
		if len(parts) != 2 {
			parts = strings.SplitN(l.Text, "<=", 2)
			op = "<="
		}
		script, err := func() (string, error) {
			if len(parts) != 2 {
				return "", fmt.Errorf("lang A == B or A <= B")
			}
			var rl [2]string
			for k := 0; k < 2; k++ {
				pat, err := w.langPattern(pk, strings.TrimSpace(parts[k]))
				if err != nil {
					return "", err
				}
				re, err := syntax.Parse(pat, syntax.Perl)
				if err != nil {
					return "", err
				}
				rl[k], err = regLan(re)
				if err != nil {
					return "", err
				}
			}
			cond := fmt.Sprintf("(xor (str.in_re w %s) (str.in_re w %s))", rl[0], rl[1])
			if op == "<=" {
				cond = fmt.Sprintf("(and (str.in_re w %s) (not (str.in_re w %s)))", rl[0], rl[1])
			}
			return "(set-option :produce-models true)\n(set-logic ALL)\n(declare-const w String)\n(assert " + cond + ")\n(check-sat)\n(get-value (w))\n", nil
		}()
		if err != nil {
			ob.RawErr = err.Error()
		}
		ob.RawScript = script
		out = append(out, ob)
	}
	return out
}
