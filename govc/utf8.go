package main

// `for i, r := range s` over a string: exact UTF-8 decoding as utf8.DecodeRuneInString does it
// (invalid or truncated sequences yield U+FFFD with width 1). int mode.

import (
	"go/types"

	"golang.org/x/tools/go/ssa"
)

type rangeIter struct {
	Str StrVal
	Obj *Object // cell: current byte position (index sort)
}

func (x *Exec) rangeInit(st *State, t *ssa.Range) Val {
	s, ok := x.operand(st, t.X).(StrVal)
	if !ok {
		x.fail("range over %T is outside the modelled subset (only strings)", x.operand(st, t.X))
	}
	if x.o.M.BV {
		x.fail("range over a string needs `mode int`")
	}
	obj := x.newObject("rangeiter:"+t.Name(), types.Typ[types.Int])
	st.Cells[obj] = x.o.Idx(0)
	return rangeIter{Str: s, Obj: obj}
}

// decodeRune: (rune, width) of the UTF-8 sequence starting at position p (p < len).
func (x *Exec) decodeRune(s StrVal, p *Term) (*Term, *Term) {
	o := x.o
	at := func(k int64) *Term { return o.SelByte(s.Arr, o.Add(o.Add(s.Off, p), o.Int(k))) }
	has := func(k int64) *Term { return o.Lt(o.Add(p, o.Int(k)), s.Len) }
	in := func(b *Term, lo, hi int64) *Term { return o.And(o.Le(o.Int(lo), b), o.Le(b, o.Int(hi))) }
	b0, b1, b2, b3 := at(0), at(1), at(2), at(3)
	cont := func(b *Term) *Term { return in(b, 0x80, 0xBF) }
	low6 := func(b *Term) *Term { return o.Mod(b, o.Int(64)) }
	// two bytes
	ok2 := o.And(in(b0, 0xC2, 0xDF), has(1), cont(b1))
	r2 := o.Add(o.Mul(o.Int(64), o.Mod(b0, o.Int(32))), low6(b1))
	// three bytes
	lead3 := o.Or(
		o.And(o.Eq(b0, o.Int(0xE0)), in(b1, 0xA0, 0xBF)),
		o.And(o.Or(in(b0, 0xE1, 0xEC), in(b0, 0xEE, 0xEF)), cont(b1)),
		o.And(o.Eq(b0, o.Int(0xED)), in(b1, 0x80, 0x9F)))
	ok3 := o.And(has(2), lead3, cont(b2))
	r3 := o.Add(o.Add(o.Mul(o.Int(4096), o.Mod(b0, o.Int(16))), o.Mul(o.Int(64), low6(b1))), low6(b2))
	// four bytes
	lead4 := o.Or(
		o.And(o.Eq(b0, o.Int(0xF0)), in(b1, 0x90, 0xBF)),
		o.And(in(b0, 0xF1, 0xF3), cont(b1)),
		o.And(o.Eq(b0, o.Int(0xF4)), in(b1, 0x80, 0x8F)))
	ok4 := o.And(has(3), lead4, cont(b2), cont(b3))
	r4 := o.Add(o.Add(o.Add(o.Mul(o.Int(262144), o.Mod(b0, o.Int(8))), o.Mul(o.Int(4096), low6(b1))), o.Mul(o.Int(64), low6(b2))), low6(b3))
	ascii := o.Lt(b0, o.Int(0x80))
	r := o.Ite(ascii, b0, o.Ite(ok2, r2, o.Ite(ok3, r3, o.Ite(ok4, r4, o.Int(0xFFFD)))))
	w := o.Ite(ascii, o.Int(1), o.Ite(ok2, o.Int(2), o.Ite(ok3, o.Int(3), o.Ite(ok4, o.Int(4), o.Int(1)))))
	return r, w
}

func (x *Exec) rangeNext(st *State, t *ssa.Next) Val {
	o := x.o
	it, ok := x.operand(st, t.Iter).(rangeIter)
	if !ok || !t.IsString {
		x.fail("Next on a non-string iterator is outside the modelled subset")
	}
	pos := st.Cells[it.Obj].(*Term)
	more := o.Lt(pos, it.Str.Len)
	r, w := x.decodeRune(it.Str, pos)
	st.Cells[it.Obj] = o.Ite(more, o.Add(pos, w), pos)
	return TupleVal{more, pos, o.Ite(more, r, o.Int(0))}
}
