package main

// Specification expression language: lexer, AST and Pratt parser.
// Go expression syntax plus  ==>  <==>  forall/exists/sum i in lo..hi :: e   old(e)   ite(c,a,b)   a ++ b

import (
	"fmt"
	"math/big"
	"strconv"
	"strings"
)

type tokKind int

const (
	tEOF tokKind = iota
	tIdent
	tInt
	tChar
	tString
	tOp
)

type tok struct {
	k   tokKind
	s   string
	pos int
}

var specOps = []string{
	"<==>", "==>", "&^", "<<", ">>", "&&", "||", "==", "!=", "<=", ">=", "::", "..", "++",
	"+", "-", "*", "/", "%", "&", "|", "^", "<", ">", "!", "(", ")", "[", "]", "{", "}", ",", ".", ":", "=", ";",
}

func lexSpec(src string) ([]tok, error) {
	var out []tok
	i := 0
	for i < len(src) {
		ch := src[i]
		switch {
		case ch == ' ' || ch == '\t' || ch == '\n' || ch == '\r':
			i++
		case ch == '/' && i+1 < len(src) && src[i+1] == '/':
			// comment to end of line
			for i < len(src) && src[i] != '\n' {
				i++
			}
		case isIdentStart(ch):
			j := i
			for j < len(src) && (isIdentStart(src[j]) || (src[j] >= '0' && src[j] <= '9')) {
				j++
			}
			out = append(out, tok{tIdent, src[i:j], i})
			i = j
		case ch >= '0' && ch <= '9':
			j := i
			if ch == '0' && j+1 < len(src) && (src[j+1] == 'x' || src[j+1] == 'X') {
				j += 2
				for j < len(src) && (isHex(src[j]) || src[j] == '_') {
					j++
				}
			} else {
				for j < len(src) && ((src[j] >= '0' && src[j] <= '9') || src[j] == '_') {
					j++
				}
			}
			out = append(out, tok{tInt, src[i:j], i})
			i = j
		case ch == '\'':
			j := i + 1
			for j < len(src) && src[j] != '\'' {
				if src[j] == '\\' {
					j++
				}
				j++
			}
			if j >= len(src) {
				return nil, fmt.Errorf("unterminated char literal at %d", i)
			}
			out = append(out, tok{tChar, src[i : j+1], i})
			i = j + 1
		case ch == '"':
			j := i + 1
			for j < len(src) && src[j] != '"' {
				if src[j] == '\\' {
					j++
				}
				j++
			}
			if j >= len(src) {
				return nil, fmt.Errorf("unterminated string literal at %d", i)
			}
			out = append(out, tok{tString, src[i : j+1], i})
			i = j + 1
		case ch == '`':
			j := i + 1
			for j < len(src) && src[j] != '`' {
				j++
			}
			if j >= len(src) {
				return nil, fmt.Errorf("unterminated raw string at %d", i)
			}
			out = append(out, tok{tString, src[i : j+1], i})
			i = j + 1
		default:
			found := false
			for _, op := range specOps {
				if strings.HasPrefix(src[i:], op) {
					out = append(out, tok{tOp, op, i})
					i += len(op)
					found = true
					break
				}
			}
			if !found {
				return nil, fmt.Errorf("unexpected character %q at %d in %q", ch, i, src)
			}
		}
	}
	out = append(out, tok{tEOF, "", len(src)})
	return out, nil
}

func isIdentStart(c byte) bool {
	return c == '_' || (c >= 'a' && c <= 'z') || (c >= 'A' && c <= 'Z') || c == '$'
}
func isHex(c byte) bool {
	return (c >= '0' && c <= '9') || (c >= 'a' && c <= 'f') || (c >= 'A' && c <= 'F')
}

// ---- AST ----------------------------------------------------------------------------------

type Expr interface{ String() string }

type (
	EIdent  struct{ Name string }
	EInt    struct{ V *big.Int }
	EStr    struct{ S string }
	EUnary  struct {
		Op string
		X  Expr
	}
	EBinary struct {
		Op   string
		L, R Expr
	}
	ECall struct {
		Fun  Expr
		Args []Expr
	}
	EIndex struct{ X, I Expr }
	ESlice struct{ X, Lo, Hi Expr } // Lo/Hi may be nil
	ESel   struct {
		X    Expr
		Name string
	}
	EQuant struct {
		Kind   string // forall exists sum
		Var    string
		Lo, Hi Expr
		Body   Expr
	}
	EZero struct{ Type string } // T{}
	EComposite struct {
		Type   string
		Fields []string
		Vals   []Expr
	}
	EType struct{ Text string } // raw type text (second arg of errAs / typeof compare)
)

func (e *EIdent) String() string  { return e.Name }
func (e *EInt) String() string    { return e.V.String() }
func (e *EStr) String() string    { return strconv.Quote(e.S) }
func (e *EUnary) String() string  { return "(" + e.Op + e.X.String() + ")" }
func (e *EBinary) String() string { return "(" + e.L.String() + " " + e.Op + " " + e.R.String() + ")" }
func (e *ECall) String() string {
	var as []string
	for _, a := range e.Args {
		as = append(as, a.String())
	}
	return e.Fun.String() + "(" + strings.Join(as, ", ") + ")"
}
func (e *EIndex) String() string { return e.X.String() + "[" + e.I.String() + "]" }
func (e *ESlice) String() string {
	lo, hi := "", ""
	if e.Lo != nil {
		lo = e.Lo.String()
	}
	if e.Hi != nil {
		hi = e.Hi.String()
	}
	return e.X.String() + "[" + lo + ":" + hi + "]"
}
func (e *ESel) String() string { return e.X.String() + "." + e.Name }
func (e *EQuant) String() string {
	return fmt.Sprintf("(%s %s in %s..%s :: %s)", e.Kind, e.Var, e.Lo, e.Hi, e.Body)
}
func (e *EZero) String() string { return e.Type + "{}" }
func (e *EComposite) String() string {
	var fs []string
	for i, f := range e.Fields {
		fs = append(fs, f+": "+e.Vals[i].String())
	}
	return e.Type + "{" + strings.Join(fs, ", ") + "}"
}
func (e *EType) String() string { return e.Text }

// ---- parser ---------------------------------------------------------------------------------

type specParser struct {
	toks []tok
	p    int
	src  string
}

func ParseSpecExpr(src string) (e Expr, err error) {
	toks, err := lexSpec(src)
	if err != nil {
		return nil, err
	}
	ps := &specParser{toks: toks, src: src}
	defer func() {
		if r := recover(); r != nil {
			if pe, ok := r.(parseErr); ok {
				err = fmt.Errorf("%s in %q", string(pe), src)
				return
			}
			panic(r)
		}
	}()
	e = ps.expr(0)
	if ps.peek().k != tEOF {
		ps.fail("unexpected %q", ps.peek().s)
	}
	return e, nil
}

type parseErr string

func (p *specParser) fail(f string, a ...any) {
	panic(parseErr(fmt.Sprintf("spec parse error at %d: ", p.peek().pos) + fmt.Sprintf(f, a...)))
}
func (p *specParser) peek() tok { return p.toks[p.p] }
func (p *specParser) next() tok { t := p.toks[p.p]; p.p++; return t }
func (p *specParser) isOp(s string) bool {
	t := p.peek()
	return t.k == tOp && t.s == s
}
func (p *specParser) accept(s string) bool {
	if p.isOp(s) {
		p.p++
		return true
	}
	return false
}
func (p *specParser) expect(s string) {
	if !p.accept(s) {
		p.fail("expected %q, found %q", s, p.peek().s)
	}
}

var binPrec = map[string]int{
	"<==>": 1, "==>": 2, "||": 3, "&&": 4,
	"==": 5, "!=": 5, "<": 5, "<=": 5, ">": 5, ">=": 5,
	"++": 6,
	"+":  7, "-": 7, "|": 7, "^": 7,
	"*": 8, "/": 8, "%": 8, "<<": 8, ">>": 8, "&": 8, "&^": 8,
}

func (p *specParser) expr(minPrec int) Expr {
	lhs := p.unary()
	for {
		t := p.peek()
		if t.k != tOp {
			return lhs
		}
		prec, ok := binPrec[t.s]
		if !ok || prec < minPrec {
			return lhs
		}
		p.next()
		var rhs Expr
		if t.s == "==>" { // right associative
			rhs = p.expr(prec)
		} else {
			rhs = p.expr(prec + 1)
		}
		lhs = &EBinary{Op: t.s, L: lhs, R: rhs}
	}
}

func (p *specParser) unary() Expr {
	t := p.peek()
	if t.k == tOp {
		switch t.s {
		case "!", "-", "^", "*":
			p.next()
			return &EUnary{Op: t.s, X: p.unary()}
		case "+":
			p.next()
			return p.unary()
		}
	}
	return p.postfix(p.primary())
}

func (p *specParser) primary() Expr {
	t := p.next()
	switch t.k {
	case tInt:
		s := strings.ReplaceAll(t.s, "_", "")
		v, ok := new(big.Int).SetString(s, 0)
		if !ok {
			p.fail("bad integer %q", t.s)
		}
		return &EInt{V: v}
	case tChar:
		r, _, _, err := strconv.UnquoteChar(t.s[1:len(t.s)-1], '\'')
		if err != nil {
			p.fail("bad char literal %s", t.s)
		}
		return &EInt{V: big.NewInt(int64(r))}
	case tString:
		s, err := strconv.Unquote(t.s)
		if err != nil {
			p.fail("bad string literal %s", t.s)
		}
		return &EStr{S: s}
	case tIdent:
		switch t.s {
		case "forall", "exists", "sum", "bitor", "cat":
			v := p.next()
			if v.k != tIdent {
				p.fail("expected bound variable")
			}
			in := p.next()
			if in.k != tIdent || in.s != "in" {
				p.fail("expected 'in'")
			}
			lo := p.expr(6)
			p.expect("..")
			hi := p.expr(6)
			p.expect("::")
			body := p.expr(0)
			return &EQuant{Kind: t.s, Var: v.s, Lo: lo, Hi: hi, Body: body}
		}
		return &EIdent{Name: t.s}
	case tOp:
		if t.s == "(" {
			e := p.expr(0)
			p.expect(")")
			return e
		}
	}
	p.p--
	p.fail("unexpected %q", t.s)
	return nil
}

// rawUntilClose collects the raw token text up to (not including) the matching ")" or top-level ",".
func (p *specParser) rawType() string {
	depth := 0
	start := p.peek().pos
	end := start
	for {
		t := p.peek()
		if t.k == tEOF {
			p.fail("unterminated type")
		}
		if t.k == tOp {
			if t.s == "(" || t.s == "[" {
				depth++
			} else if t.s == ")" || t.s == "]" {
				if depth == 0 {
					break
				}
				depth--
			} else if t.s == "," && depth == 0 {
				break
			}
		}
		p.next()
		end = t.pos + len(t.s)
	}
	return strings.TrimSpace(p.src[start:end])
}

func (p *specParser) postfix(x Expr) Expr {
	for {
		t := p.peek()
		if t.k != tOp {
			return x
		}
		switch t.s {
		case "(":
			p.next()
			call := &ECall{Fun: x}
			if id, ok := x.(*EIdent); ok && (id.Name == "errAs" || id.Name == "typeIs") {
				call.Args = append(call.Args, p.expr(0))
				p.expect(",")
				call.Args = append(call.Args, &EType{Text: p.rawType()})
				p.expect(")")
				x = call
				continue
			}
			for !p.isOp(")") {
				call.Args = append(call.Args, p.expr(0))
				if !p.accept(",") {
					break
				}
			}
			p.expect(")")
			x = call
		case "[":
			p.next()
			var lo, hi Expr
			if !p.isOp(":") {
				lo = p.expr(0)
			}
			if p.accept(":") {
				if !p.isOp("]") {
					hi = p.expr(0)
				}
				p.expect("]")
				x = &ESlice{X: x, Lo: lo, Hi: hi}
			} else {
				p.expect("]")
				x = &EIndex{X: x, I: lo}
			}
		case ".":
			p.next()
			n := p.next()
			if n.k != tIdent {
				p.fail("expected selector name")
			}
			x = &ESel{X: x, Name: n.s}
		case "{":
			// T{} zero value only
			id, ok := x.(*EIdent)
			if !ok {
				return x
			}
			p.next()
			if p.accept("}") {
				x = &EZero{Type: id.Name}
				continue
			}
			comp := &EComposite{Type: id.Name}
			for {
				f := p.next()
				if f.k != tIdent {
					p.fail("expected field name in composite literal")
				}
				p.expect(":")
				comp.Fields = append(comp.Fields, f.s)
				comp.Vals = append(comp.Vals, p.expr(0))
				if !p.accept(",") {
					break
				}
			}
			p.expect("}")
			x = comp
		default:
			return x
		}
	}
}
