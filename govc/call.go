package main

// Calls: builtins, in-module callees (through their contracts, or inlined), and dispatch to the
// assumed schemas of external functions (stdlib.go).

import (
	"sort"
	"fmt"
	"go/types"
	"math/big"
	"strings"

	"golang.org/x/tools/go/ssa"
)

func (x *Exec) call(st *State, site ssa.Instruction, c *ssa.CallCommon) Val {
	if c.IsInvoke() {
		return x.invoke(st, site, c)
	}
	var args []Val
	for _, a := range c.Args {
		args = append(args, x.operand(st, a))
	}
	switch f := c.Value.(type) {
	case *ssa.Builtin:
		return x.builtin(st, f.Name(), c, args)
	case *ssa.Function:
		return x.callFunc(st, f, nil, args, c)
	case *ssa.MakeClosure:
		fv := x.operand(st, f).(FuncVal)
		return x.callFunc(st, fv.Fn, fv.Free, args, c)
	}
	// dynamic: function value
	fv, ok := x.operand(st, c.Value).(FuncVal)
	if !ok {
		x.fail("call through %T", x.operand(st, c.Value))
	}
	if fv.Fn != nil {
		return x.callFunc(st, fv.Fn, fv.Free, args, c)
	}
	if fv.Sym != "" {
		return x.callSymbolicFunc(st, fv, args, c)
	}
	x.fail("call of nil function value")
	return nil
}

func (x *Exec) callFunc(st *State, fn *ssa.Function, free []Val, args []Val, c *ssa.CallCommon) Val {
	pp := fnPkg(fn)
	if pp != nil {
		if pk, ok := x.w.ByPath[pp.Pkg.Path()]; ok {
			return x.callModule(st, pk, fn, free, args)
		}
	}
	return x.callExternal(st, fn, args, c)
}

func (x *Exec) callModule(st *State, pk *Pkg, fn *ssa.Function, free []Val, args []Val) Val {
	key := ContractKey(fn)
	fc := pk.Contracts.Funcs[key]
	if fc == nil && fn.Parent() != nil {
		// closure without a contract: inline
		return x.inlineCall(st, pk, fn, nil, free, args)
	}
	if fc == nil {
		// a function of the module without a contract (for instance one that a refactoring has just extracted):
		// verified through its body at this call site, like a closure. Its loops have no invariants, so a loop in it
		// still stops the verification of the caller.
		if len(fn.Blocks) == 0 {
			x.fail("callee %s has no contract and no body", InstName(fn))
		}
		x.inlined[InstName(fn)+" (no contract: verified through its body at the call site)"] = true
		return x.inlineCall(st, pk, fn, nil, free, args)
	}
	// a (bounded) lemma may ask for a callee to be verified through its body, with its loops unrolled
	if top := x.topFc; top != nil && !fc.Inline {
		for _, k := range strings.Split(top.Opts["inline"], ",") {
			if k == key {
				cfc := *fc
				cfc.Loops = map[int]*LoopSpec{}
				for lk, lv := range fc.Loops {
					cfc.Loops[lk] = lv
				}
				for ok, ov := range top.Opts {
					var li, n int
					if _, err := fmt.Sscanf(ok+"="+ov, "unroll."+key+".%d=%d", &li, &n); err == nil {
						cfc.Loops[li] = &LoopSpec{Unroll: n, HasUnroll: true}
					}
				}
				x.inlined[InstName(fn)+" (in bounded lemma)"] = true
				return x.inlineCall(st, pk, fn, &cfc, free, args)
			}
		}
	}
	if fc.Inline {
		x.inlined[InstName(fn)] = true
		return x.inlineCall(st, pk, fn, fc, free, args)
	}
	return x.applyContract(st, pk, fn, fc, args)
}

func tparamMap(fn *ssa.Function) map[string]types.Type {
	m := map[string]types.Type{}
	root := fn
	for root.Parent() != nil {
		root = root.Parent()
	}
	tps := root.TypeParams()
	tas := root.TypeArgs()
	if tps != nil && len(tas) == tps.Len() {
		for i := 0; i < tps.Len(); i++ {
			m[tps.At(i).Obj().Name()] = tas[i]
		}
	}
	return m
}

// resultNames gives the names by which a contract may refer to the results of fn.
func resultNames(fn *ssa.Function) [][]string {
	res := fn.Signature.Results()
	out := make([][]string, res.Len())
	// the Go names of the results take precedence over the positional aliases r0, r1, ...: a result that is itself
	// called r1 must not be shadowed by "the second result"
	named := map[string]bool{}
	for i := 0; i < res.Len(); i++ {
		named[res.At(i).Name()] = true
	}
	// ... and so do the names of the parameters (a parameter called err is not "the error result")
	for i := 0; i < fn.Signature.Params().Len(); i++ {
		named[fn.Signature.Params().At(i).Name()] = true
	}
	for i := 0; i < res.Len(); i++ {
		if alias := fmt.Sprintf("r%d", i); !named[alias] {
			out[i] = append(out[i], alias)
		}
		if n := res.At(i).Name(); n != "" && n != "_" {
			out[i] = append(out[i], n)
		}
		if i == 0 && !named["result"] {
			out[i] = append(out[i], "result")
		}
		if i == res.Len()-1 && isErrorType(res.At(i).Type()) && !named["err"] {
			out[i] = append(out[i], "err")
		}
	}
	// a renamed result stays reachable under the name recorded from the unchanged tree
	if theWorld != nil {
		for i, old := range theWorld.recordedResultAliases(fn) {
			if !named[old] {
				out[i] = append(out[i], old)
			}
		}
	}
	return out
}

func (x *Exec) inlineCall(st *State, pk *Pkg, fn *ssa.Function, fc *FuncContract, free []Val, args []Val) Val {
	if x.inlineDepth > 12 {
		x.fail("inlining too deep at %s", InstName(fn))
	}
	if len(fn.Blocks) == 0 {
		x.fail("cannot inline %s: no body", InstName(fn))
	}
	entry := st.clone()
	entry.Regs = map[ssa.Value]Val{}
	for i, p := range fn.Params {
		entry.Regs[p] = args[i]
	}
	for i, fv := range fn.FreeVars {
		entry.Regs[fv] = free[i]
	}
	savedRet, savedFc, savedPos, savedDefers := x.returns, x.fc, x.curPos, x.defers
	x.returns, x.fc, x.defers = nil, fc, nil
	x.inlineDepth++
	x.runBody(fn, entry)
	x.inlineDepth--
	rets := x.returns
	x.returns, x.fc, x.curPos, x.defers = savedRet, savedFc, savedPos, savedDefers
	if len(rets) == 0 {
		st.Guard = x.o.False()
		return x.zeroResult(fn)
	}
	// merge return points
	o := x.o
	guards := make([]*Term, len(rets))
	for i, r := range rets {
		guards[i] = r.St.Guard
	}
	nres := fn.Signature.Results().Len()
	merged := make([]Val, nres)
	var H, A *Term
	cells := map[*Object]Val{}
	ghost := map[string]Val{}
	for i := len(rets) - 1; i >= 0; i-- {
		r := rets[i]
		if i == len(rets)-1 {
			copy(merged, r.Results)
			H, A = r.St.H, r.St.Alloc
			for k, v := range r.St.Cells {
				cells[k] = v
			}
			for k, v := range r.St.Ghost {
				ghost[k] = v
			}
			continue // (plain copies: order irrelevant)
		}
		for j := range merged {
			if !sameVal(merged[j], r.Results[j]) {
				merged[j] = x.iteVal(guards[i], r.Results[j], merged[j])
			}
		}
		H = o.Ite(guards[i], r.St.H, H)
		A = o.Ite(guards[i], r.St.Alloc, A)
		for _, k := range sortedCellKeys(r.St.Cells) {
			v := r.St.Cells[k]
			if w, ok := cells[k]; ok {
				if !sameVal(v, w) {
					cells[k] = x.iteVal(guards[i], v, w)
				}
			} else {
				cells[k] = v
			}
		}
		for _, k := range sortedGhostKeys(r.St.Ghost) {
			v := r.St.Ghost[k]
			if w, ok := ghost[k]; ok {
				if !sameVal(v, w) {
					ghost[k] = x.iteVal(guards[i], v, w)
				}
			} else {
				ghost[k] = v
			}
		}
	}
	st.Guard = o.Or(guards...)
	st.H, st.Alloc = H, A
	if fc != nil && fc.Pure {
		pv := x.pureResults(fn, fc, args, entry)
		for i := range merged {
			if pv[i] != nil {
				func() {
					defer func() { recover() }()
					x.assume(o.Implies(st.Guard, x.valEq(st, merged[i], pv[i])))
				}()
			}
		}
	}
	for k, v := range cells {
		st.Cells[k] = v
	}
	for k, v := range ghost {
		st.Ghost[k] = v
	}
	switch nres {
	case 0:
		return nil
	case 1:
		return merged[0]
	}
	return TupleVal(merged)
}

func (x *Exec) zeroResult(fn *ssa.Function) Val {
	res := fn.Signature.Results()
	switch res.Len() {
	case 0:
		return nil
	case 1:
		return x.zeroVal(res.At(0).Type())
	}
	tv := make(TupleVal, res.Len())
	for i := range tv {
		tv[i] = x.zeroVal(res.At(i).Type())
	}
	return tv
}

// applyContract: modular call — check the precondition, havoc what the callee may assign, assume the postcondition.
func (x *Exec) applyContract(st *State, pk *Pkg, fn *ssa.Function, fc *FuncContract, args []Val) (result Val) {
	if fn.Signature.Results().Len() == 0 && len(fc.Assigns) == 0 {
		// a ghost lemma: its postcondition speaks about the caller's own terms and was asked for explicitly, so
		// the slicer always keeps it (its link to the goal may run through function applications only)
		start := len(x.assumes)
		r := x.applyContract1(st, pk, fn, fc, args)
		if x.alwaysKeep == nil {
			x.alwaysKeep = map[int]bool{}
		}
		for i := start; i < len(x.assumes); i++ {
			x.alwaysKeep[i] = true
		}
		return r
	}
	if fc.Pure {
		// the results are uninterpreted applications, not fresh symbols: the hypotheses are kept by the ordinary rule
		return x.applyContract1(st, pk, fn, fc, args)
	}
	x.defining(func() { result = x.applyContract1(st, pk, fn, fc, args) })
	return result
}

func (x *Exec) applyContract1(st *State, pk *Pkg, fn *ssa.Function, fc *FuncContract, args []Val) Val {
	x.callees[InstName(fn)] = true
	if fc.Trusted {
		// an axiom: the contract is assumed, nothing verifies it
		x.trusted["TRUSTED AXIOM (contract assumed, never verified): "+InstName(fn)] = true
	}
	return x.applyContractD(st, pk, descOfFn(fn), fc, args)
}

// applyContractD: the call is replaced by its contract - preconditions become obligations, assigned memory is
// havocked, the results are fresh (or pure applications) constrained by the postconditions.
func (x *Exec) applyContractD(st *State, pk *Pkg, d calleeDesc, fc *FuncContract, args []Val) Val {
	o := x.o
	seq := x.callSeq
	x.callSeq++
	label := d.Label
	pre := st.clone()
	env := &SpecEnv{x: x, pk: pk, vars: map[string]SVal{}, pre: pre, post: nil, tparams: d.TParams, allocPre: pre.Alloc}
	for i, n := range d.PNames {
		env.vars[n] = SVal{V: args[i], T: d.PTypes[i]}
	}
	if d.Fn != nil {
		x.w.addNameAliases(d.Fn, env.vars)
	}
	for _, g := range fc.Ghost {
		env.vars[g.Tags[0]] = env.eval(g.E) // named values of the call's pre-state
	}
	for i, c := range fc.Requires {
		x.oblige("pre", fmt.Sprintf("%s.%d", label, i), c.Tags, c.Text, st.Guard, x.evalClauseOf(env, c, fc))
	}
	if fc.PanicsIff != nil {
		x.oblige("callee-panic", label, []string{"C18.nopanic"}, "not ("+fc.PanicsIff.Text+")", st.Guard, o.Not(x.evalClauseOf(env, fc.PanicsIff, fc)))
	}
	// havoc assigned memory
	for _, a := range fc.Assigns {
		x.havocTarget(st, env, a, fmt.Sprintf("c%d", seq))
	}
	// the callee may allocate
	// region ids: the caller's own allocations so far are below base+2^19, the callee's fresh regions lie in
	// [base+2^19, newbase), and everything allocated later is at or above newbase >= base+2^20
	env.allocPre = o.Add(pre.Alloc, o.Int(1<<19))
	na := o.Fresh(fmt.Sprintf("alloc.c%d", seq), IntSort)
	o.allocVars[na] = true
	x.assume(o.Ge(na, o.Add(st.Alloc, o.Int(1<<20))))
	st.Alloc = na
	// results
	res := d.Sig.Results()
	names := d.RNames
	vals := make([]Val, res.Len())
	var pureVals []Val
	if fc.Pure && d.Fn != nil {
		// the results of a pure function *are* its uninterpreted applications to the arguments' contents
		pureVals = x.pureResults(d.Fn, fc, args, pre)
	}
	for i := 0; i < res.Len(); i++ {
		if pureVals != nil && pureVals[i] != nil {
			vals[i] = pureVals[i]
			continue
		}
		vals[i] = x.freshVal(fmt.Sprintf("c%d.%s.r%d", seq, sanitize(label), i), res.At(i).Type())
		if sv, ok := vals[i].(SliceVal); ok {
			x.assume(o.Lt(sv.Reg, st.Alloc))
		}
	}
	env.post = st
	// whether the callee's own execution went through a recovered panic is not observable by the caller
	env.calleePanicked = o.Fresh(fmt.Sprintf("c%d.panicked", seq), BoolSort)
	for i := range vals {
		for _, n := range names[i] {
			env.vars[n] = SVal{V: vals[i], T: res.At(i).Type()}
		}
	}
	for _, c := range fc.Ensures {
		if strings.Contains(c.Text, "ucall(") || strings.Contains(c.Text, "callres(") || strings.Contains(c.Text, "callReported(") || strings.Contains(c.Text, "local(") {
			// speaks about the callee's own calls and locals: nothing a caller can observe
			continue
		}
		t := x.evalClauseOf(env, c, fc)
		if c.Bound {
			x.harvestBounds(t)
		}
		x.assume(o.Implies(st.Guard, t))
	}

	switch len(vals) {
	case 0:
		return nil
	case 1:
		return vals[0]
	}
	return TupleVal(vals)
}

func (x *Exec) evalClauseOf(env *SpecEnv, c *Clause, fc *FuncContract) (res *Term) {
	defer func() {
		if r := recover(); r != nil {
			if se, ok := r.(specErr); ok {
				x.fail("specification error in %q (%s:%d): %s", c.Text, relPath(x.w.RepoDir, fc.File), c.Line, se.msg)
			}
			panic(r)
		}
	}()
	return env.evalBool(c.E)
}

// havocTarget: `*p` (pointee of pointer parameter p) or `s[lo:hi]` / `s` (elements of byte slice s).
func (x *Exec) havocTarget(st *State, env *SpecEnv, target string, tag string) {
	o := x.o
	ex, err := ParseSpecExpr(target)
	if err != nil {
		x.fail("bad assigns target %q: %v", target, err)
	}
	defer func() {
		if r := recover(); r != nil {
			if se, ok := r.(specErr); ok {
				x.fail("assigns target %q: %s", target, se.msg)
			}
			panic(r)
		}
	}()
	if id, ok := ex.(*EIdent); ok && id.Name == "heap" {
		// all byte memory
		st.H = o.Fresh("H."+tag, o.HeapSort())
		return
	}
	if id, ok := ex.(*EIdent); ok && id.Name == "reports" {
		// the ghost report counter of TestingT: it may grow
		cur, _ := st.Ghost["reports"].(*Term)
		if cur == nil {
			cur = o.Int(0)
		}
		nv := o.Fresh(tag+".reports", IntSort)
		x.assume(o.Le(cur, nv))
		st.Ghost["reports"] = nv
		return
	}
	if call, ok := ex.(*ECall); ok {
		if id, ok := call.Fun.(*EIdent); ok && id.Name == "decoder" && len(call.Args) == 1 {
			// the ghost state of a json decoder: cursor, depth and position flags change; the document does not
			v := env.eval(call.Args[0])
			obj, d := x.decoderOf(st, v.V)
			nd := DecVal{View: d.View, Pos: o.Fresh(tag+".pos", IntSort), Depth: o.Fresh(tag+".depth", IntSort),
				InObj: o.Fresh(tag+".inobj", BoolSort), AtKey: o.Fresh(tag+".atkey", BoolSort)}
			x.assume(o.And(o.Le(d.Pos, nd.Pos), o.Le(nd.Pos, x.nTok(d.View)), o.Le(o.Int(0), nd.Depth)))
			st.Cells[obj] = nd
			return
		}
	}
	switch t := ex.(type) {
	case *EUnary:
		if t.Op == "*" {
			v := env.eval(t.X)
			p, ok := v.V.(PtrVal)
			if !ok || p.Obj == nil {
				x.fail("assigns *%s: not a pointer to an object", t.X)
			}
			cur := x.cell(st, p.Obj)
			_ = cur
			st.Cells[p.Obj] = x.update(x.cell(st, p.Obj), p.Path, x.freshVal(tag+".deref", derefType(v.T)))
			return
		}
	case *ESlice, *EIdent:
		var base Expr = ex
		var lo, hi *Term
		var sl SliceVal
		if s, ok := ex.(*ESlice); ok {
			base = s.X
			bv := env.eval(base)
			sv, ok := bv.V.(SliceVal)
			if !ok {
				x.fail("assigns %s: not a byte slice", target)
			}
			sl = sv
			lo = o.Idx(0)
			hi = sl.Cap
			if s.Lo != nil {
				lo = env.asInt(env.eval(s.Lo), tyInt)
			}
			if s.Hi != nil {
				hi = env.asInt(env.eval(s.Hi), tyInt)
			}
		} else {
			bv := env.eval(base)
			sv, ok := bv.V.(SliceVal)
			if !ok {
				x.fail("assigns %s: not a byte slice", target)
			}
			sl = sv
			lo, hi = o.Idx(0), sl.Len
		}
		x.catDirty = true
		old := o.Select(st.H, sl.Reg)
		na := o.Fresh(tag+".arr", o.ByteArr())
		i := o.BoundVar("i", o.IdxSort())
		inRange := o.And(o.IdxLe(o.IdxAdd(sl.Off, lo), i), o.IdxLt(i, o.IdxAdd(sl.Off, hi)))
		x.assume(o.Forall([]*Term{i}, o.Implies(o.Not(inRange), o.Eq(o.Select(na, i), o.Select(old, i)))))
		st.H = o.Store(st.H, sl.Reg, na)
		return
	}
	x.fail("unsupported assigns target %q", target)
}

func derefType(t types.Type) types.Type {
	if t == nil {
		return nil
	}
	if p, ok := t.Underlying().(*types.Pointer); ok {
		return p.Elem()
	}
	return t
}

// ---- builtins -------------------------------------------------------------------------------------------

func (x *Exec) builtin(st *State, name string, c *ssa.CallCommon, args []Val) Val {
	o := x.o
	switch name {
	case "len":
		switch a := args[0].(type) {
		case OpaqueVal:
			x.fail("len of opaque value %s", a.What)
		}
		return x.lenOfCode(args[0])
	case "cap":
		if s, ok := args[0].(SliceVal); ok {
			return s.Cap
		}
		x.fail("cap of %T", args[0])
	case "append":
		dst, ok := args[0].(SliceVal)
		if !ok {
			x.fail("append to %T", args[0])
		}
		if len(args) == 1 {
			return dst
		}
		var src StrVal
		switch s := args[1].(type) {
		case StrVal:
			src = s
		case SliceVal:
			src = x.seqView(st, s)
		case ListSliceVal:
			// append(buf, b) with a single byte arrives as a []byte{b} list in SSA
			x.fail("append of list slice")
		default:
			x.fail("append of %T", args[1])
		}
		return x.appendSeq(st, dst, src)
	case "copy":
		dst, ok := args[0].(SliceVal)
		if !ok {
			x.fail("copy to %T", args[0])
		}
		src := x.seqView(st, args[1])
		n := o.Ite(o.IdxLt(dst.Len, src.Len), dst.Len, src.Len)
		x.writeRange(st, dst.Reg, o.IdxAdd(dst.Off, o.Idx(0)), src, n)
		x.catDirty = true
		return n
	case "recover":
		return x.recoverVal(st)
	}
	x.fail("unsupported builtin %s", name)
	return nil
}

func (x *Exec) lenOfCode(v Val) (res *Term) {
	defer func() {
		if r := recover(); r != nil {
			if se, ok := r.(specErr); ok {
				x.fail("%s", se.msg)
			}
			panic(r)
		}
	}()
	return x.lenOf(v)
}

// writeRange writes the first n bytes of src into region reg starting at absolute index base (memmove semantics:
// src is a snapshot taken before the write).
func (x *Exec) writeRange(st *State, reg, base *Term, src StrVal, n *Term) {
	o := x.o
	st.H = o.Store(st.H, reg, x.writeArr(o.Select(st.H, reg), base, src, n))
}

// writeArr: the array old with old[base+i] = src[i] for 0 <= i < n.
func (x *Exec) writeArr(old, base *Term, src StrVal, n *Term) *Term {
	o := x.o
	if k, ok := n.ConstInt64(); ok && k <= 64 {
		if o.M.BV {
			k = bvSigned(n.IVal, 64).Int64()
		}
		cur := old
		for i := int64(0); i < k; i++ {
			cur = o.Store(cur, o.IdxAdd(base, o.Idx(i)), o.SelByte(src.Arr, o.IdxAdd(src.Off, o.Idx(i))))
		}
		return cur
	}
	// bounded symbolic length: conditional stores
	if b := o.Bounds(n); !o.M.BV && b.hi != nil && b.hi.IsInt64() && b.hi.Int64() <= 32 {
		cur := old
		for i := int64(0); i < b.hi.Int64(); i++ {
			// (array-level conditional: measured to be much easier for the solvers than a value-level one)
			at := o.IdxAdd(base, o.Idx(i))
			cur = o.Ite(o.IdxLt(o.Idx(i), n), o.Store(cur, at, o.SelByte(src.Arr, o.IdxAdd(src.Off, o.Idx(i)))), cur)
		}
		return cur
	}
	na := o.Fresh("wr", o.ByteArr())
	i := o.BoundVar("i", o.IdxSort())
	in := o.And(o.IdxLe(base, i), o.IdxLt(i, o.IdxAdd(base, n)))
	x.assume(o.Forall([]*Term{i}, o.Eq(o.Select(na, i),
		o.Ite(in, o.Select(src.Arr, o.IdxAdd(src.Off, o.IdxSub(i, base))), o.Select(old, i)))))
	return na
}

// appendSeq: Go's append(dst, src...) — in place when capacity suffices, otherwise into a fresh region.
// A fresh region keeps the index space of the old one, so the contents after the append are the same array in
// both cases (old contents with src written at off+len); only the region that holds them differs.
func (x *Exec) appendSeq(st *State, dst SliceVal, src StrVal) SliceVal {
	o := x.o
	if n, ok := src.Len.ConstInt64(); ok && n == 0 {
		return dst
	}
	newLen := o.IdxAdd(dst.Len, src.Len)
	fits := o.IdxLe(newLen, dst.Cap)
	fresh := x.newRegion(st)
	reg := o.Ite(fits, dst.Reg, fresh)
	oldArr := o.Select(st.H, dst.Reg)
	newArr := x.writeArr(oldArr, o.IdxAdd(dst.Off, dst.Len), src, src.Len)
	st.H = o.Store(st.H, reg, newArr)
	nc := o.Fresh("cap", o.IdxSort())
	x.assumeLen(nc)
	x.assume(o.IdxLe(newLen, nc))
	if o.M.BV {
		x.assume(o.BVCmp("bvsle", dst.Off, o.BVOp("bvsub", o.BV(tyInt.Max(), 64), nc)))
	} else {
		x.assume(o.Le(o.Add(dst.Off, nc), o.IntBig(tyInt.Max())))
		// the new length is a length: it fits an int (it is at most the capacity, see above). Recording the range
		// keeps a later len(result) from being wrapped when it is converted back to an index.
		o.SetRange(newLen, big.NewInt(0), tyInt.Max())
		delete(o.bmemo, newLen)
	}
	cp := o.Ite(fits, dst.Cap, nc)
	res := SliceVal{Reg: reg, Off: dst.Off, Len: newLen, Cap: cp, Elem: dst.Elem}
	if dst.Cat != nil {
		res.Cat = append(append([]StrVal{}, dst.Cat...), src)
	} else {
		x.untrackedAppend = true
	}
	return res
}

func (x *Exec) appendByte(st *State, dst SliceVal, b *Term) SliceVal {
	o := x.o
	arr := o.Store(o.ConstArray(o.ByteArr(), o.ConstI(tyByte, 0)), o.Idx(0), b)
	return x.appendSeq(st, dst, StrVal{Arr: arr, Off: o.Idx(0), Len: o.Idx(1)})
}

// ---- interface method calls ----------------------------------------------------------------------------------

func invokeKey(c *ssa.CallCommon) string {
	return shortTypeNoPkg(c.Value.Type()) + "." + c.Method.Name()
}

func (x *Exec) invoke(st *State, site ssa.Instruction, c *ssa.CallCommon) Val {
	recv := x.operand(st, c.Value)
	var args []Val
	for _, a := range c.Args {
		args = append(args, x.operand(st, a))
	}
	key := invokeKey(c)
	if h, ok := invokeSchemas[key]; ok {
		return h(x, st, recv, args, c)
	}
	if ev, ok := recv.(ErrVal); ok && c.Method.Name() == "Error" {
		// err.Error(): the message component of the error value (calling it on a nil error panics)
		x.oblige("nil", "invoke", []string{"C18.nopanic"}, "error value is not nil", st.Guard, x.o.Not(ev.Nil))
		return x.errMsg(ev)
	}
	if strings.HasSuffix(key, "TestingT.Errorf") {
		x.reportIfNot(st, x.o.False())
		return nil
	}
	if strings.HasSuffix(key, "TestingT.FailNow") {
		// marks the test as failed too: counted as a report
		x.reportIfNot(st, x.o.False())
		return nil
	}
	if strings.HasSuffix(key, "TestingT.Helper") {
		return nil
	}
	// dispatch over the known dynamic types of the interface value (module types)
	if iv, ok := recv.(IfaceVal); ok && iv.Sym == "" && len(iv.Pay) > 0 {
		return x.invokeDispatch(st, iv, c, args)
	}
	if iv, ok := recv.(IfaceVal); ok && iv.Sym != "" {
		// a method of an interface value of unknown dynamic type
		return x.unknownCall(st, c, iv, args)
	}
	x.fail("interface method call %s is outside the verified subset", key)
	return nil
}

func (x *Exec) invokeDispatch(st *State, iv IfaceVal, c *ssa.CallCommon, args []Val) Val {
	o := x.o
	// find concrete types by id
	byID := map[int]types.Type{}
	for k, id := range x.typeIDs {
		_ = k
		_ = id
	}
	for id := range iv.Pay {
		byID[id] = x.typeByID[id]
	}
	var result Val
	have := false
	guard0 := st.Guard
	var outs []*State
	var results []Val
	var conds []*Term
	payIDs := make([]int, 0, len(iv.Pay))
	for id := range iv.Pay {
		payIDs = append(payIDs, id)
	}
	sort.Ints(payIDs) // fixed order: deterministic scripts
	for _, id := range payIDs {
		pay := iv.Pay[id]
		ct := byID[id]
		if ct == nil {
			x.fail("dispatch: unknown dynamic type id %d", id)
		}
		ms := x.w.Prog.MethodSets.MethodSet(ct)
		sel := ms.Lookup(c.Method.Pkg(), c.Method.Name())
		if sel == nil {
			x.fail("dispatch: %s has no method %s", ct, c.Method.Name())
		}
		fn := x.w.Prog.MethodValue(sel)
		cond := o.Eq(iv.Tag, o.Int(int64(id)))
		sub := st.clone()
		sub.Guard = o.And(guard0, cond)
		r := x.callFunc(sub, fn, nil, append([]Val{pay}, args...), c)
		outs = append(outs, sub)
		results = append(results, r)
		conds = append(conds, cond)
	}
	// merge (disjoint conditions)
	for i := range outs {
		if !have {
			result = results[i]
			st.H, st.Alloc = outs[i].H, outs[i].Alloc
			for k, v := range outs[i].Cells {
				st.Cells[k] = v
			}
			have = true
			continue
		}
		if result != nil {
			result = x.iteVal(conds[i], results[i], result)
		}
		st.H = o.Ite(conds[i], outs[i].H, st.H)
		st.Alloc = o.Ite(conds[i], outs[i].Alloc, st.Alloc)
		for _, k := range sortedCellKeys(outs[i].Cells) {
			v := outs[i].Cells[k]
			if w, ok := st.Cells[k]; ok && !sameVal(v, w) {
				st.Cells[k] = x.iteVal(conds[i], v, w)
			}
		}
	}
	// calling a method on a nil interface panics
	x.oblige("nil", "invoke", []string{"C18.nopanic"}, "interface value is not nil", guard0, o.Or(conds...))
	return result
}

var invokeSchemas = map[string]func(x *Exec, st *State, recv Val, args []Val, c *ssa.CallCommon) Val{}

func (x *Exec) callSymbolicFunc(st *State, fv FuncVal, args []Val, c *ssa.CallCommon) Val {
	return x.unknownCall(st, c, nil, args)
}

// ---- defer / recover / panic -----------------------------------------------------------------------------------

type deferred struct {
	guard *Term
	call  *ssa.CallCommon
	args  []Val
	fn    Val
	block *ssa.BasicBlock // where the defer statement stands
}

func (x *Exec) deferCall(st *State, t *ssa.Defer) {
	var args []Val
	for _, a := range t.Call.Args {
		args = append(args, x.operand(st, a))
	}
	d := deferred{guard: st.Guard, call: &t.Call, args: args, block: t.Block()}
	if !t.Call.IsInvoke() {
		d.fn = x.operand(st, t.Call.Value)
	}
	x.defers = append(x.defers, d)
}

func (x *Exec) runDefers(st *State, at *ssa.BasicBlock) {
	// deferred calls run in reverse order; only calls whose effect is modelled are accepted
	for i := len(x.defers) - 1; i >= 0; i-- {
		d := x.defers[i]
		if at != nil && d.block != nil && d.block.Parent() == at.Parent() && !blockReaches(d.block, at) {
			continue // this defer statement is not on any path to here (the executor visits blocks, not paths)
		}
		if x.o.And(st.Guard, d.guard).IsFalse() {
			continue
		}
		sub := st
		c := d.call
		switch f := c.Value.(type) {
		case *ssa.Function:
			x.callFunc(sub, f, nil, d.args, c)
		default:
			if fv, ok := d.fn.(FuncVal); ok && fv.Fn != nil {
				x.callFunc(sub, fv.Fn, fv.Free, d.args, c)
			} else {
				x.fail("unsupported deferred call")
			}
		}
	}
}

func (x *Exec) recoverVal(st *State) Val {
	// recover() outside a panicking context returns nil; panicking contexts are modelled by the
	// callers of the `safe*` helpers through their contracts.
	if x.panicking != nil {
		v := *x.panicking
		x.panicking = nil
		x.recovered = true
		return v
	}
	return IfaceVal{Tag: x.o.Int(0), Pay: map[int]Val{}}
}

func (x *Exec) onPanic(st *State, t *ssa.Panic) {
	// explicit panic: allowed only when the contract says so
	o := x.o
	if x.fc != nil && x.fc.PanicsIff != nil && x.inlineDepth == 0 {
		env := x.specEnv(x.entry, st)
		x.oblige("panic", "explicit", x.fc.PanicsIff.Tags, "panic only if "+x.fc.PanicsIff.Text, st.Guard, x.evalClause(env, x.fc.PanicsIff))
		return
	}
	x.oblige("panic", "explicit", []string{"C18.nopanic"}, "explicit panic is unreachable", st.Guard, o.False())
}

// specEnv: environment for the current function's own clauses.
func (x *Exec) specEnv(pre, post *State) *SpecEnv {
	env := &SpecEnv{x: x, pk: x.pk, vars: map[string]SVal{}, pre: pre, post: post, tparams: x.tparams, allocPre: pre.Alloc}
	for k, v := range x.params {
		env.vars[k] = v
	}
	// ghost name = expr: named values of the entry state
	if x.fc != nil && len(x.fc.Ghost) > 0 && x.entry != nil && pre == x.entry {
		if x.ghostVals == nil {
			x.ghostVals = map[string]SVal{}
			genv := &SpecEnv{x: x, pk: x.pk, vars: map[string]SVal{}, pre: x.entry, post: x.entry, tparams: x.tparams, allocPre: x.entry.Alloc}
			for k, v := range x.params {
				genv.vars[k] = v
			}
			for _, g := range x.fc.Ghost {
				v := genv.eval(g.E)
				genv.vars[g.Tags[0]] = v
				x.ghostVals[g.Tags[0]] = v
			}
		}
		for k, v := range x.ghostVals {
			env.vars[k] = v
		}
	}
	return env
}

// ---- globals ------------------------------------------------------------------------------------------------------

func (w *World) isSentinel(key string) bool {
	for _, s := range w.Sentinels {
		if s == key {
			return true
		}
	}
	return false
}

func (x *Exec) globalValue(pk *Pkg, name string, t types.Type) (Val, error) {
	o := x.o
	key := pk.Name + "." + name
	if v, ok := x.globals[key]; ok {
		return v, nil
	}
	gi := pk.Inits[name]
	var v Val
	switch {
	case gi != nil && gi.Kind == "sentinel":
		ev := ErrVal{Nil: o.False(), Is: map[string]*Term{key: o.True()}, As: map[string]*Term{}, Data: map[string]*Term{"inputLen": o.ConstI(tyInt, -1)}}
		v = ev
	case gi != nil && gi.Kind == "regexp":
		v = RegexpVal{Name: key}
	case gi != nil && gi.Kind == "func":
		if _, isCfg := pk.Contracts.Configs[name]; !isCfg {
			return nil, fmt.Errorf("function variable %s must be declared `config %s = <default>` in the contract file", key, name)
		}
		fn := pk.LookupFunc(gi.Func)
		if fn == nil {
			return nil, fmt.Errorf("default %s of %s not found", gi.Func, key)
		}
		x.notes = append(x.notes, fmt.Sprintf("assumed: %s holds its default %s", key, gi.Func))
		v = FuncVal{Fn: fn, Global: key}
	case gi != nil && gi.Kind == "funclit":
		return nil, fmt.Errorf("function literal variable %s: not supported as a value", key)
	default:
		if _, isCfg := pk.Contracts.Configs[name]; isCfg {
			// configuration variable: symbolic, constant during the call
			v = x.symbolicConfig(key, t)
		} else if pk.Contracts.ConstVars[name] && (gi == nil || gi.Kind == "opaque") {
			v = OpaqueVal{What: key}
		} else if pk.Contracts.ConstVars[name] {
			if gi == nil {
				return nil, fmt.Errorf("constvar %s has no initialiser", key)
			}
			cv, err := x.initVal(gi)
			if err != nil {
				return nil, fmt.Errorf("constvar %s: %v", key, err)
			}
			v = cv
		} else if gi != nil && gi.Kind != "opaque" && x.w.neverWritten(pk, name) {
			// a package variable that no function of the module ever writes or lets escape (a lookup table a
			// refactoring introduced, say): it holds its initialiser
			x.arrayInit = true
			cv, err := x.initVal(gi)
			x.arrayInit = false
			if err != nil {
				return nil, fmt.Errorf("package variable %s: %v", key, err)
			}
			x.notes = append(x.notes, fmt.Sprintf("package variable %s is never written in the module: treated as the constant it is initialised to", key))
			v = cv
		} else {
			return nil, fmt.Errorf("package variable %s is read but declared neither `config` nor `constvar`", key)
		}
	}
	x.globals[key] = v
	return v, nil
}

func (x *Exec) symbolicConfig(key string, t types.Type) Val {
	o := x.o
	if ity, ok := intTyOf(t); ok {
		return o.TypedVar("cfg."+key, ity)
	}
	if isBoolType(t) {
		return o.Var("cfg."+key, BoolSort)
	}
	x.fail("config variable %s of unsupported type %s", key, t)
	return nil
}

func (x *Exec) initVal(gi *GlobalInit) (Val, error) {
	o := x.o
	switch gi.Kind {
	case "const":
		env := &SpecEnv{x: x, pk: x.pk}
		sv := env.constSVal(gi.Const, gi.Type)
		if sv.C != nil {
			ity, _ := intTyOf(gi.Type)
			return o.Const(ity, sv.C), nil
		}
		return sv.V, nil
	case "table":
		var et types.Type
		switch u := gi.Type.Underlying().(type) {
		case *types.Slice:
			et = u.Elem()
		case *types.Array:
			et = u.Elem()
		}
		l := ListSliceVal{Elem: et}
		for _, e := range gi.Elems {
			v, err := x.initVal(e)
			if err != nil {
				return nil, err
			}
			l.Elems = append(l.Elems, v)
		}
		l.Hi = len(l.Elems)
		if at, isArr := gi.Type.Underlying().(*types.Array); isArr && x.arrayInit {
			// an array value (not a slice of a table): scalar elements as an SMT array, others as a list
			if isScalarType(at.Elem()) {
				es := o.ElemSort(at.Elem())
				arr := o.ConstArray(ArraySort(o.IdxSort(), es), x.zeroVal(at.Elem()).(*Term))
				for i, e := range l.Elems {
					t, ok := e.(*Term)
					if !ok {
						return nil, fmt.Errorf("array element %d is not a scalar", i)
					}
					arr = o.Store(arr, o.Idx(int64(i)), t)
				}
				return ArrayVal{Arr: arr, N: at.Len(), Elem: at.Elem()}, nil
			}
			lv := ListVal{Elem: at.Elem(), Elems: l.Elems}
			for int64(len(lv.Elems)) < at.Len() {
				lv.Elems = append(lv.Elems, x.zeroVal(at.Elem()))
			}
			return lv, nil
		}
		return l, nil
	case "map":
		mt := gi.Type.Underlying().(*types.Map)
		m := MapVal{ValT: mt.Elem()}
		for i, k := range gi.Keys {
			v, err := x.initVal(gi.Vals[i])
			if err != nil {
				return nil, err
			}
			m.Keys = append(m.Keys, k)
			m.Vals = append(m.Vals, v)
		}
		return m, nil
	case "struct":
		st := gi.Type.Underlying().(*types.Struct)
		sv := StructVal{T: gi.Type, F: make([]Val, st.NumFields())}
		for i := 0; i < st.NumFields(); i++ {
			f := st.Field(i)
			if fi, ok := gi.Fields[f.Name()]; ok {
				v, err := x.initVal(fi)
				if err != nil {
					return nil, err
				}
				sv.F[i] = v
			} else {
				sv.F[i] = x.zeroVal(f.Type())
			}
		}
		return sv, nil
	}
	return nil, fmt.Errorf("unsupported initialiser kind %s", gi.Kind)
}

// errAsLookup: does the error's chain contain a value of the type written as tt (e.g. *ParseError[T], *ParseError, InvalidDigitError)?
func (x *Exec) errAsLookup(e *SpecEnv, ev ErrVal, tt string) *Term {
	o := x.o
	tt = strings.ReplaceAll(tt, " ", "")
	// substitute type parameters
	for name, t := range e.tparams {
		tt = strings.ReplaceAll(tt, "["+name+"]", "["+shortTypeNoPkg(t)+"]")
	}
	ptr := strings.HasPrefix(tt, "*")
	base := strings.TrimPrefix(tt, "*")
	pkgQual := e.pk.Name + "."
	if strings.Contains(base, ".") && !strings.Contains(strings.SplitN(base, "[", 2)[0], ".") {
		// only type args contain dots
	} else if strings.Contains(strings.SplitN(base, "[", 2)[0], ".") {
		pkgQual = ""
	}
	want := pkgQual + base
	if ptr {
		want = "*" + want
	}
	var hits []*Term
	found := false
	asKeys := make([]string, 0, len(ev.As))
	for k := range ev.As {
		asKeys = append(asKeys, k)
	}
	sort.Strings(asKeys) // fixed order: deterministic scripts
	for _, k := range asKeys {
		t := ev.As[k]
		if k == want || (!strings.Contains(base, "[") && strings.HasPrefix(k, want+"[")) {
			hits = append(hits, t)
			found = true
		}
	}
	if !found {
		// the type must at least exist in the universe of error types
		ok := false
		for _, k := range x.w.ErrTypes {
			if k == want || (!strings.Contains(base, "[") && strings.HasPrefix(k, want+"[")) {
				ok = true
			}
		}
		if !ok {
			panic(specErr{fmt.Sprintf("errAs: unknown error type %s (known: %s)", want, strings.Join(x.w.ErrTypes, ", "))})
		}
		return o.False()
	}
	return o.Or(hits...)
}

func (x *Exec) specMethodCall(e *SpecEnv, recv SVal, name string, args []Expr) SVal {
	// pure accessor methods with a contract `ensures result == <expr>`: evaluate the callee's ensures as a definition
	t := recv.T
	if t == nil {
		panic(specErr{"method call on untyped value"})
	}
	nt, ok := t.(*types.Named)
	if !ok {
		if pt, ok2 := t.(*types.Pointer); ok2 {
			nt, ok = pt.Elem().(*types.Named)
		}
	}
	if !ok {
		panic(specErr{fmt.Sprintf("method %s on non-named type %s", name, t)})
	}
	pk := x.w.ByPath[nt.Obj().Pkg().Path()]
	if pk == nil {
		panic(specErr{"method call on foreign type"})
	}
	var fc *FuncContract
	var key string
	for _, k := range []string{"(" + nt.Obj().Name() + ")." + name, "(*" + nt.Obj().Name() + ")." + name} {
		if c, ok := pk.Contracts.Funcs[k]; ok {
			fc, key = c, k
		}
	}
	if fc == nil {
		panic(specErr{fmt.Sprintf("method %s.%s has no contract", nt.Obj().Name(), name)})
	}
	fn := pk.LookupFunc(key)
	if fn == nil {
		panic(specErr{fmt.Sprintf("method %s not found", key)})
	}
	if fc.Pure {
		vals := []Val{recv.V}
		for i, a := range args {
			av := e.eval(a)
			if av.C != nil {
				ity, _ := intTyOf(fn.Params[i+1].Type())
				vals = append(vals, x.o.Const(ity, av.C))
			} else {
				vals = append(vals, av.V)
			}
		}
		rt := fn.Signature.Results().At(0).Type()
		return SVal{V: x.pureApp(fn, fc, vals, e.st(), x.o.ElemSort(rt)), T: rt}
	}
	// result defined by `ensures result == E`
	env := &SpecEnv{x: x, pk: pk, vars: map[string]SVal{}, pre: e.st(), post: e.st(), tparams: e.tparams, allocPre: e.allocPre}
	env.vars[fn.Params[0].Name()] = recv
	for i, a := range args {
		env.vars[fn.Params[i+1].Name()] = e.eval(a)
	}
	for _, c := range fc.Ensures {
		if b, ok := c.E.(*EBinary); ok && b.Op == "==" {
			if id, ok := b.L.(*EIdent); ok && (id.Name == "result" || id.Name == "r0") {
				r := env.eval(b.R)
				r.T = fn.Signature.Results().At(0).Type()
				if r.C != nil {
					if ity, ok := intTyOf(r.T); ok {
						r = SVal{V: x.o.Const(ity, r.C), T: r.T}
					}
				}
				return r
			}
		}
	}
	panic(specErr{fmt.Sprintf("method %s: contract has no defining clause `ensures result == ...`", key)})
}

var _ = big.NewInt

// harvestBounds: a `bound` clause of a callee constrains only the fresh result symbols of this call (always
// satisfiable), so its interval facts may be recorded as ranges of those symbols unconditionally.
func (x *Exec) harvestBounds(t *Term) {
	o := x.o
	if o.M.BV {
		return
	}
	var walk func(u *Term)
	walk = func(u *Term) {
		switch u.Op {
		case "and":
			for _, a := range u.Args {
				walk(a)
			}
		case "<=":
			a, b := u.Args[0], u.Args[1]
			if a.Op == "var" && b.IsConst() {
				cur := o.ranges[a]
				o.SetRange(a, cur.lo, b.IVal)
				delete(o.bmemo, a)
			} else if b.Op == "var" && a.IsConst() {
				cur := o.ranges[b]
				o.SetRange(b, a.IVal, cur.hi)
				delete(o.bmemo, b)
			}
		}
	}
	walk(t)
}

// newRegion: a region id never used before: the state's allocation base plus a globally unique small offset
// (distinct allocation events of one base are syntactically distinct constants apart).
func (x *Exec) newRegion(st *State) *Term {
	x.regionSeq++
	if x.regionSeq >= 1<<19 {
		x.fail("too many allocations in one function")
	}
	return x.o.Add(st.Alloc, x.o.Int(int64(x.regionSeq)))
}

// pureApp: the uninterpreted application F(args) for a function declared `pure`. Struct fields named in the
// contract option `ignores` are left out (the function provably never reads them). Applications of the same
// function are tied by extensionality axioms: equal scalars and equal sequence contents give equal results.
type pureAppRec struct {
	scal []*Term
	seqs []StrVal
	res  *Term
}

// pureResults: the results of a pure function as uninterpreted applications (scalars and strings; nil for others).
func (x *Exec) pureResults(fn *ssa.Function, fc *FuncContract, args []Val, st *State) []Val {
	o := x.o
	res := fn.Signature.Results()
	out := make([]Val, res.Len())
	for i := 0; i < res.Len(); i++ {
		t := res.At(i).Type()
		suffix := fmt.Sprintf(".r%d", i)
		if res.Len() == 1 {
			suffix = ""
		}
		switch {
		case isScalarType(t):
			out[i] = x.pureAppN(fn, fc, args, st, o.ElemSort(t), suffix)
			if ity, ok := intTyOf(t); ok && !o.M.BV {
				// typing fact of the result
				r := out[i].(*Term)
				x.assume(o.And(o.Le(o.IntBig(ity.Min()), r), o.Le(r, o.IntBig(ity.Max()))))
			}
		case isStringType(t):
			l := x.pureAppN(fn, fc, args, st, o.IdxSort(), suffix+".len")
			x.assume(o.IdxLe(o.Idx(0), l))
			out[i] = StrVal{Arr: x.pureAppN(fn, fc, args, st, o.ByteArr(), suffix+".arr"), Off: x.pureAppN(fn, fc, args, st, o.IdxSort(), suffix+".off"), Len: l}
		}
	}
	return out
}

func (x *Exec) pureApp(fn *ssa.Function, fc *FuncContract, args []Val, st *State, res *Sort) *Term {
	return x.pureAppN(fn, fc, args, st, res, "")
}

func (x *Exec) pureAppN(fn *ssa.Function, fc *FuncContract, args []Val, st *State, res *Sort, suffix string) *Term {
	o := x.o
	ignore := map[string]bool{}
	if fc != nil {
		for _, f := range strings.Split(fc.Opts["ignores"], ",") {
			if f != "" {
				ignore[f] = true
			}
		}
	}
	var ts []*Term
	rec := pureAppRec{}
	var flat func(v Val)
	flat = func(v Val) {
		switch t := v.(type) {
		case *Term:
			ts = append(ts, t)
			rec.scal = append(rec.scal, t)
		case StrVal:
			ts = append(ts, t.Arr, t.Off, t.Len)
			rec.seqs = append(rec.seqs, t)
		case SliceVal:
			sv := x.seqView(st, t)
			ts = append(ts, sv.Arr, sv.Off, sv.Len)
			rec.seqs = append(rec.seqs, sv)
		case StructVal:
			stt, _ := t.T.Underlying().(*types.Struct)
			for i, f := range t.F {
				if stt != nil && ignore[stt.Field(i).Name()] {
					continue
				}
				flat(f)
			}
		default:
			x.fail("pure function %s: argument of unsupported shape %T", InstName(fn), v)
		}
	}
	for _, a := range args {
		flat(a)
	}
	name := "pure." + InstName(fn) + suffix
	r := o.UF(name, res, ts...)
	rec.res = r
	if x.pureApps == nil {
		x.pureApps = map[string][]pureAppRec{}
	}
	dup := false
	for _, p := range x.pureApps[name] {
		if p.res == r {
			dup = true
			continue
		}
		var eqs []*Term
		for i := range p.scal {
			eqs = append(eqs, o.Eq(p.scal[i], rec.scal[i]))
		}
		for i := range p.seqs {
			eqs = append(eqs, x.seqEq(p.seqs[i], rec.seqs[i]))
		}
		x.assumeClosed(o.Implies(o.And(eqs...), o.Eq(p.res, r)))
	}
	if !dup {
		x.pureApps[name] = append(x.pureApps[name], rec)
	}
	return r
}

// checkPure: syntactic purity: no stores to pre-existing memory, no goroutines/defers, callees pure.
func (w *World) checkPure(fn *ssa.Function, ignores string) string {
	return w.checkPureD(fn, ignores, 0)
}

func (w *World) checkPureD(fn *ssa.Function, ignores string, pureDepth int) string {
	ign := map[string]bool{}
	for _, f := range strings.Split(ignores, ",") {
		if f != "" {
			ign[f] = true
		}
	}
	structArg := func(v ssa.Value) bool {
		_, ok := v.Type().Underlying().(*types.Struct)
		return ok
	}
	for _, b := range fn.Blocks {
		for _, ins := range b.Instrs {
			if len(ign) > 0 {
				// an ignored field must never be selected, and struct values must not travel whole
				switch t := ins.(type) {
				case *ssa.Field:
					if st, ok := t.X.Type().Underlying().(*types.Struct); ok && ign[st.Field(t.Field).Name()] {
						return "reads the field " + st.Field(t.Field).Name() + " it is declared to ignore"
					}
				case *ssa.FieldAddr:
					if pt, ok := t.X.Type().Underlying().(*types.Pointer); ok {
						if st, ok := pt.Elem().Underlying().(*types.Struct); ok && ign[st.Field(t.Field).Name()] {
							return "reads the field " + st.Field(t.Field).Name() + " it is declared to ignore"
						}
					}
				case ssa.CallInstruction:
					for _, a := range t.Common().Args {
						if structArg(a) {
							return "passes a whole struct to a callee while declaring ignored fields"
						}
					}
				case *ssa.Store:
					if structArg(t.Val) {
						// spilling a struct parameter into a local that is only ever accessed field by field is fine
						al, isAlloc := t.Addr.(*ssa.Alloc)
						okSpill := isAlloc
						if isAlloc {
							for _, u := range *al.Referrers() {
								switch ui := u.(type) {
								case *ssa.FieldAddr:
								case *ssa.Store:
									if ui != t {
										okSpill = false
									}
								default:
									okSpill = false
								}
							}
						}
						if !okSpill {
							return "stores a whole struct while declaring ignored fields"
						}
					}
				case *ssa.MakeInterface:
					if structArg(t.X) {
						return "boxes a whole struct while declaring ignored fields"
					}
				case *ssa.BinOp:
					if structArg(t.X) {
						return "compares whole structs while declaring ignored fields"
					}
				}
			}
			switch t := ins.(type) {
			case *ssa.Store:
				if _, isAlloc := t.Addr.(*ssa.Alloc); !isAlloc {
					if fa, ok := t.Addr.(*ssa.FieldAddr); ok {
						if _, ok2 := fa.X.(*ssa.Alloc); ok2 {
							continue
						}
					}
					return "stores through a pointer that is not a local allocation"
				}
			case *ssa.Go, *ssa.Defer, *ssa.MapUpdate, *ssa.Send:
				return fmt.Sprintf("uses %T", ins)
			case ssa.CallInstruction:
				c := t.Common()
				if c.IsInvoke() {
					return "calls an interface method"
				}
				if _, ok := c.Value.(*ssa.Builtin); ok {
					continue
				}
				callee := c.StaticCallee()
				if callee == nil {
					// a call through a `config X = Default` function variable counts as a call of Default
					if ld, ok := c.Value.(*ssa.UnOp); ok {
						if g, ok := ld.X.(*ssa.Global); ok {
							if gpk := w.ByPath[g.Pkg.Pkg.Path()]; gpk != nil {
								if _, isCfg := gpk.Contracts.Configs[g.Name()]; isCfg {
									if gi := gpk.Inits[g.Name()]; gi != nil && gi.Kind == "func" {
										callee = gpk.LookupFunc(gi.Func)
									}
								}
							}
						}
					}
				}
				if callee == nil {
					return "calls a function value"
				}
				if pp := fnPkg(callee); pp != nil {
					if pk, ok := w.ByPath[pp.Pkg.Path()]; ok {
						cfc := pk.Contracts.Funcs[ContractKey(callee)]
						if cfc == nil && callee != fn && len(callee.Blocks) > 0 && pureDepth < 6 {
							// a callee without a contract is verified through its body: it must itself pass this check
							why := w.checkPureD(callee, ignores, pureDepth+1)
							if why != "" {
								return "calls " + InstName(callee) + ", which " + why
							}
							continue
						}
						if cfc == nil || !(cfc.Pure || cfc.Inline) {
							return "calls " + InstName(callee) + ", which is not declared pure"
						}
						continue
					}
				}
				name := callee.String()
				okPrefix := false
				for _, p := range []string{"strings.", "(*strings.Builder).", "(*regexp.Regexp).Match", "strconv.", "math/bits.", "unicode/utf8.", "(*regexp.Regexp).Find"} {
					if strings.HasPrefix(name, p) {
						okPrefix = true
					}
				}
				if !okPrefix {
					return "calls " + name
				}
			}
		}
	}
	return ""
}

// blockReaches: there is a path in the control-flow graph from a to b (a == b counts).
func blockReaches(a, b *ssa.BasicBlock) bool {
	seen := map[*ssa.BasicBlock]bool{}
	var walk func(c *ssa.BasicBlock) bool
	walk = func(c *ssa.BasicBlock) bool {
		if c == b {
			return true
		}
		if seen[c] {
			return false
		}
		seen[c] = true
		for _, s := range c.Succs {
			if walk(s) {
				return true
			}
		}
		return false
	}
	return walk(a)
}

// neverWritten: no function of the module stores to the package variable, takes a slice of it, passes its address
// on or otherwise lets it escape - it is only ever read (directly, or element / field wise).
func (w *World) neverWritten(pk *Pkg, name string) bool {
	w.nwMu.Lock()
	defer w.nwMu.Unlock()
	if w.nwMemo == nil {
		w.nwMemo = map[string]bool{}
	}
	key := pk.Name + "." + name
	if r, ok := w.nwMemo[key]; ok {
		return r
	}
	g, _ := pk.S.Members[name].(*ssa.Global)
	res := g != nil
	var readOnlyUse func(v ssa.Value, depth int) bool
	readOnlyUse = func(v ssa.Value, depth int) bool {
		refs := v.Referrers()
		if refs == nil || depth > 4 {
			return false
		}
		for _, r := range *refs {
			switch t := r.(type) {
			case *ssa.UnOp: // load
				if t.Op.String() != "*" {
					return false
				}
			case *ssa.IndexAddr:
				if !readOnlyUse(t, depth+1) {
					return false
				}
			case *ssa.FieldAddr:
				if !readOnlyUse(t, depth+1) {
					return false
				}
			case *ssa.DebugRef:
			default:
				return false
			}
		}
		return true
	}
	if res {
		// a Global has no referrer list: look at every instruction of every function of the module
		for _, p := range w.Pkgs {
			for _, fns := range p.Funcs {
				for _, fn := range fns {
					for _, b := range fn.Blocks {
						for _, ins := range b.Instrs {
							for _, op := range ins.Operands(nil) {
								if *op != ssa.Value(g) {
									continue
								}
								switch t := ins.(type) {
								case *ssa.UnOp:
									if t.Op.String() != "*" {
										res = false
									}
								case *ssa.IndexAddr:
									if !readOnlyUse(t, 0) {
										res = false
									}
								case *ssa.FieldAddr:
									if !readOnlyUse(t, 0) {
										res = false
									}
								default:
									res = false
								}
							}
						}
					}
				}
			}
		}
	}
	w.nwMemo[key] = res
	return res
}
