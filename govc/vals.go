package main

// Symbolic values of the executor and their guarded merge.

import (
	"fmt"
	"go/types"
	"sort"

	"golang.org/x/tools/go/ssa"
)

type Val interface{}

// StrVal: immutable byte sequence; element i is Arr[Off+i].
// Alts (optional) lists the Go constants the value may be, with their conditions.
type StrVal struct {
	Arr, Off, Len *Term
	Alts          []StrAlt
}

type StrAlt struct {
	Cond *Term
	S    string
}

// RuneSeqVal: immutable sequence of runes ([]rune(s)).
type RuneSeqVal struct{ Arr, Len *Term }

// TimeVal: abstraction of time.Time: the civil date in the value's own location, whether it is the
// zero Time, the absolute day number / nanosecond within the UTC day (only for UTC midnights built by time.Date).
type TimeVal struct {
	Zero    *Term
	Y, M, D *Term // civil date in t's location (Int)
	UTCMid  *Term // Bool: value is a midnight UTC built from (Y,M,D)
	Ns      *Term // Int: nanoseconds since the epoch 0001-01-01T00:00:00Z (mathematical)
}

// SliceVal: a []byte-like slice into region Reg of the byte heap (Reg 0 = nil slice).
type SliceVal struct {
	Reg, Off, Len, Cap *Term
	Elem               types.Type
	// Cat (optional, non-nil = known): the contents [0,len) as a concatenation of immutable parts, maintained
	// by append (derived information used to decide `result == a ++ b ++ ...` goals structurally)
	Cat []StrVal
}

type StructVal struct {
	T types.Type
	F []Val
}

// ArrayVal: fixed-size array of scalars as an SMT array indexed by the int sort.
type ArrayVal struct {
	Arr  *Term
	N    int64
	Elem types.Type
}

// ListVal: fixed-size array of arbitrary values kept as a Go-side list (constant indices only).
type ListVal struct {
	Elems []Val
	Elem  types.Type
}

// ListSliceVal: slice of a ListVal object / constant table.
type ListSliceVal struct {
	Obj    *Object // nil for immutable tables
	Elems  []Val   // when Obj == nil
	Lo, Hi int
	Elem   types.Type
}

type PathElem struct {
	Field int
	Index *Term // non-nil: array index
}

type Object struct {
	ID       int
	Name     string
	T        types.Type
	Global   *ssa.Global
	Init     Val   // initial value of symbolic / read-only objects
	Reg      *Term // byte arrays: their region in the byte heap
	N        int64
	ReadOnly bool
}

type PtrVal struct {
	Nil  *Term
	Obj  *Object
	Path []PathElem
	// pointer to an element of a byte slice
	Slice *SliceVal
	Idx   *Term
	// the element belongs to a local byte array (slices of it never carry a Cat description)
	LocalArr bool
	// a pointer that is one of several (join of pointers to different objects): Obj and Slice are nil; exactly one
	// condition holds when the pointer is not nil. Reads select, writes update each target conditionally.
	Alts []PtrAlt
}

type PtrAlt struct {
	C *Term
	P PtrVal
}

func (p PtrVal) alts(o *Ops) []PtrAlt {
	if len(p.Alts) > 0 {
		return p.Alts
	}
	return []PtrAlt{{C: o.True(), P: p}}
}

// objs: every object the pointer may point into.
func (p PtrVal) objs() []*Object {
	if p.Obj != nil {
		return []*Object{p.Obj}
	}
	var r []*Object
	for _, a := range p.Alts {
		r = append(r, a.P.objs()...)
	}
	return r
}

// FloatQ: the float64 (Q + R/3.6e12)/Div produced by time.Duration.Hours() and divisions by integer constants, kept
// symbolically in int mode. It is an exact integer, computed exactly by IEEE arithmetic, when R == 0 and Div | Q
// (|Q| < 2^53 always holds: Q is a number of hours in an int64 of nanoseconds).
type FloatQ struct {
	Q, R *Term
	Div  int64
}

type TupleVal []Val

// ErrVal is the abstraction of an error value.
type ErrVal struct {
	Nil  *Term
	Is   map[string]*Term // sentinel (pkg.Name) -> errors.Is(err, sentinel)
	As   map[string]*Term // type key -> errors.As finds it
	Data map[string]*Term // named payload components (e.g. "inputLen", "digit")
}

// IfaceVal: non-error interface value. Tag 0 = nil.
type IfaceVal struct {
	Tag *Term
	Pay map[int]Val // type id -> payload (shared map, filled lazily for symbolic interfaces)
	Sym string      // non-empty: symbolic origin (payloads created on demand with this prefix)
	RT  types.Type  // a reflect.Type value: the Go type it describes
}

type FuncVal struct {
	Fn     *ssa.Function
	Free   []Val
	Global string           // config function variable (pkg.Name) when loaded from a global
	Sym    string           // symbolic function value (parameter / field)
	Sig    *types.Signature // signature of a symbolic function value
}

type MapVal struct {
	Keys []string
	Vals []Val
	ValT types.Type
}

type SubmatchVal struct {
	Matched *Term
	Parts   []SliceVal
}

type RegexpVal struct{ Name string } // pkg.var

type OpaqueVal struct{ What string }

// SymListVal: a slice of unknown length whose elements are not bytes (a parameter such as `cases []CaseText[T]`).
// Elements are created on demand, one object per index term; the slice itself is never written by verified code.
type SymListVal struct {
	Sym   string
	Len   *Term
	Elem  types.Type
	elems map[*Term]*Object // shared
}

// ---- merge -----------------------------------------------------------------------------------------

type mergeErr struct{ msg string }

func (e mergeErr) Error() string { return e.msg }

func (x *Exec) iteVal(c *Term, a, b Val) Val {
	o := x.o
	if c.IsTrue() {
		return a
	}
	if c.IsFalse() {
		return b
	}
	switch av := a.(type) {
	case *Term:
		bv, ok := b.(*Term)
		if !ok {
			panic(mergeErr{fmt.Sprintf("merge: term vs %T", b)})
		}
		return o.Ite(c, av, bv)
	case StrVal:
		bv := b.(StrVal)
		r := StrVal{Arr: o.Ite(c, av.Arr, bv.Arr), Off: o.Ite(c, av.Off, bv.Off), Len: o.Ite(c, av.Len, bv.Len)}
		if len(av.Alts) > 0 && len(bv.Alts) > 0 {
			for _, a := range av.Alts {
				r.Alts = append(r.Alts, StrAlt{o.And(c, a.Cond), a.S})
			}
			for _, a := range bv.Alts {
				r.Alts = append(r.Alts, StrAlt{o.And(o.Not(c), a.Cond), a.S})
			}
		}
		return r
	case RuneSeqVal:
		bv := b.(RuneSeqVal)
		return RuneSeqVal{o.Ite(c, av.Arr, bv.Arr), o.Ite(c, av.Len, bv.Len)}
	case DecVal:
		bv := b.(DecVal)
		return DecVal{View: x.iteVal(c, av.View, bv.View).(StrVal), Pos: o.Ite(c, av.Pos, bv.Pos), Depth: o.Ite(c, av.Depth, bv.Depth),
			InObj: o.Ite(c, av.InObj, bv.InObj), AtKey: o.Ite(c, av.AtKey, bv.AtKey)}
	case TimeVal:
		bv := b.(TimeVal)
		return TimeVal{Zero: o.Ite(c, av.Zero, bv.Zero), Y: o.Ite(c, av.Y, bv.Y), M: o.Ite(c, av.M, bv.M), D: o.Ite(c, av.D, bv.D),
			UTCMid: o.Ite(c, av.UTCMid, bv.UTCMid), Ns: o.Ite(c, av.Ns, bv.Ns)}
	case SliceVal:
		bv := b.(SliceVal)
		r := SliceVal{Reg: o.Ite(c, av.Reg, bv.Reg), Off: o.Ite(c, av.Off, bv.Off), Len: o.Ite(c, av.Len, bv.Len), Cap: o.Ite(c, av.Cap, bv.Cap), Elem: av.Elem}
		if av.Cat != nil && bv.Cat != nil {
			// pad the shorter list with empty parts, then merge part-wise
			n := len(av.Cat)
			if len(bv.Cat) > n {
				n = len(bv.Cat)
			}
			empty := x.constString("")
			r.Cat = make([]StrVal, n)
			for i := 0; i < n; i++ {
				pa, pb := empty, empty
				if i < len(av.Cat) {
					pa = av.Cat[i]
				}
				if i < len(bv.Cat) {
					pb = bv.Cat[i]
				}
				r.Cat[i] = x.iteVal(c, pa, pb).(StrVal)
			}
		}
		return r
	case StructVal:
		bv := b.(StructVal)
		r := StructVal{T: av.T, F: make([]Val, len(av.F))}
		for i := range av.F {
			r.F[i] = x.iteVal(c, av.F[i], bv.F[i])
		}
		return r
	case ArrayVal:
		bv := b.(ArrayVal)
		return ArrayVal{o.Ite(c, av.Arr, bv.Arr), av.N, av.Elem}
	case ListVal:
		bv := b.(ListVal)
		r := ListVal{Elem: av.Elem, Elems: make([]Val, len(av.Elems))}
		for i := range av.Elems {
			r.Elems[i] = x.iteVal(c, av.Elems[i], bv.Elems[i])
		}
		return r
	case TupleVal:
		bv := b.(TupleVal)
		r := make(TupleVal, len(av))
		for i := range av {
			r[i] = x.iteVal(c, av[i], bv[i])
		}
		return r
	case PtrVal:
		bv := b.(PtrVal)
		if av.Obj == nil && av.Slice == nil && len(av.Alts) == 0 { // a is the nil pointer
			r := bv
			r.Nil = o.Ite(c, av.Nil, bv.Nil)
			return r
		}
		if bv.Obj == nil && bv.Slice == nil && len(bv.Alts) == 0 {
			r := av
			r.Nil = o.Ite(c, av.Nil, bv.Nil)
			return r
		}
		if av.Obj == bv.Obj && av.Obj != nil && samePath(av.Path, bv.Path) {
			r := av
			r.Nil = o.Ite(c, av.Nil, bv.Nil)
			return r
		}
		if av.Slice == nil && bv.Slice == nil {
			r := PtrVal{Nil: o.Ite(c, av.Nil, bv.Nil)}
			for _, a := range av.alts(o) {
				r.Alts = append(r.Alts, PtrAlt{C: o.And(c, a.C), P: a.P})
			}
			for _, b := range bv.alts(o) {
				r.Alts = append(r.Alts, PtrAlt{C: o.And(o.Not(c), b.C), P: b.P})
			}
			if len(r.Alts) <= 8 {
				return r
			}
		}
		panic(mergeErr{"merge of pointers to different objects"})
	case ErrVal:
		bv := b.(ErrVal)
		r := ErrVal{Nil: o.Ite(c, av.Nil, bv.Nil), Is: map[string]*Term{}, As: map[string]*Term{}, Data: map[string]*Term{}}
		for _, k := range unionKeys(av.Is, bv.Is) {
			r.Is[k] = o.Ite(c, orFalse(o, av.Is[k]), orFalse(o, bv.Is[k]))
		}
		for _, k := range unionKeys(av.As, bv.As) {
			r.As[k] = o.Ite(c, orFalse(o, av.As[k]), orFalse(o, bv.As[k]))
		}
		for _, k := range unionKeys(av.Data, bv.Data) {
			ta, tb := av.Data[k], bv.Data[k]
			if ta == nil {
				ta = x.dataDefault(k, tb)
			}
			if tb == nil {
				tb = x.dataDefault(k, ta)
			}
			r.Data[k] = o.Ite(c, ta, tb)
		}
		return r
	case IfaceVal:
		bv := b.(IfaceVal)
		r := IfaceVal{Tag: o.Ite(c, av.Tag, bv.Tag), Pay: map[int]Val{}}
		payIDs := make([]int, 0, len(av.Pay))
		for k := range av.Pay {
			payIDs = append(payIDs, k)
		}
		sort.Ints(payIDs) // fixed order: deterministic scripts
		for _, k := range payIDs {
			v := av.Pay[k]
			if w, ok := bv.Pay[k]; ok {
				r.Pay[k] = x.iteVal(c, v, w)
			} else {
				r.Pay[k] = v
			}
		}
		for k, w := range bv.Pay {
			if _, ok := av.Pay[k]; !ok {
				r.Pay[k] = w
			}
		}
		if av.Sym == bv.Sym {
			r.Sym = av.Sym
		} else if av.Sym != "" || bv.Sym != "" {
			r.Sym = av.Sym + "|" + bv.Sym
		}
		if av.RT != nil && bv.RT != nil && types.Identical(av.RT, bv.RT) {
			r.RT = av.RT
		}
		return r
	case SubmatchVal:
		bv := b.(SubmatchVal)
		r := SubmatchVal{Matched: o.Ite(c, av.Matched, bv.Matched)}
		for i := range av.Parts {
			r.Parts = append(r.Parts, x.iteVal(c, av.Parts[i], bv.Parts[i]).(SliceVal))
		}
		return r
	case FuncVal:
		bv, ok := b.(FuncVal)
		if ok && av.Fn == bv.Fn && av.Global == bv.Global && av.Sym == bv.Sym && len(av.Free) == len(bv.Free) {
			r := FuncVal{Fn: av.Fn, Global: av.Global, Sym: av.Sym, Sig: av.Sig}
			for i := range av.Free {
				r.Free = append(r.Free, x.iteVal(c, av.Free[i], bv.Free[i]))
			}
			return r
		}
		if ok && av.Fn == nil && bv.Fn == nil && av.Global == "" && bv.Global == "" {
			// two unknown (or nil) function values: an unknown one that is nil exactly when the chosen side is
			x.callSeq++
			sig := av.Sig
			if sig == nil {
				sig = bv.Sig
			}
			r := FuncVal{Sym: fmt.Sprintf("fmerge%d", x.callSeq), Sig: sig}
			x.assume(o.Eq(x.funcIsNil(r), o.Ite(c, x.funcIsNil(av), x.funcIsNil(bv))))
			return r
		}
		panic(mergeErr{"merge of different function values"})
	case ListSliceVal, MapVal, RegexpVal, OpaqueVal, rangeIter, SymListVal:
		return a // immutable tables: both sides must be the same object by construction
	case nil:
		return b
	}
	panic(mergeErr{fmt.Sprintf("merge: unsupported value %T", a)})
}

func (x *Exec) dataDefault(k string, like *Term) *Term {
	if like.Sort == BoolSort {
		return x.o.False()
	}
	if like.Sort.Kind == SBV {
		return x.o.BVi(0, like.Sort.W)
	}
	if like.Sort.Kind == SInt {
		return x.o.Int(-1)
	}
	return like
}

func orFalse(o *Ops, t *Term) *Term {
	if t == nil {
		return o.False()
	}
	return t
}

func sortedTermKeys(m map[string]*Term) []string {
	ks := make([]string, 0, len(m))
	for k := range m {
		ks = append(ks, k)
	}
	sort.Strings(ks)
	return ks
}

func unionKeys(a, b map[string]*Term) []string {
	m := map[string]bool{}
	for k := range a {
		m[k] = true
	}
	for k := range b {
		m[k] = true
	}
	var ks []string
	for k := range m {
		ks = append(ks, k)
	}
	sort.Strings(ks)
	return ks
}

func samePath(a, b []PathElem) bool {
	if len(a) != len(b) {
		return false
	}
	for i := range a {
		if a[i].Field != b[i].Field || a[i].Index != b[i].Index {
			return false
		}
	}
	return true
}

func sameVal(a, b Val) bool {
	switch av := a.(type) {
	case *Term:
		bv, ok := b.(*Term)
		return ok && av == bv
	case StrVal:
		bv, ok := b.(StrVal)
		return ok && av.Arr == bv.Arr && av.Off == bv.Off && av.Len == bv.Len
	case RuneSeqVal:
		bv, ok := b.(RuneSeqVal)
		return ok && av == bv
	case DecVal:
		bv, ok := b.(DecVal)
		return ok && av.Pos == bv.Pos && av.Depth == bv.Depth && av.InObj == bv.InObj && av.AtKey == bv.AtKey && av.View.Arr == bv.View.Arr && av.View.Off == bv.View.Off && av.View.Len == bv.View.Len
	case TimeVal:
		bv, ok := b.(TimeVal)
		return ok && av == bv
	case SliceVal:
		bv, ok := b.(SliceVal)
		return ok && av.Reg == bv.Reg && av.Off == bv.Off && av.Len == bv.Len && av.Cap == bv.Cap
	case StructVal:
		bv, ok := b.(StructVal)
		if !ok || len(av.F) != len(bv.F) {
			return false
		}
		for i := range av.F {
			if !sameVal(av.F[i], bv.F[i]) {
				return false
			}
		}
		return true
	case ArrayVal:
		bv, ok := b.(ArrayVal)
		return ok && av.Arr == bv.Arr
	case ListVal:
		bv, ok := b.(ListVal)
		if !ok || len(av.Elems) != len(bv.Elems) {
			return false
		}
		for i := range av.Elems {
			if !sameVal(av.Elems[i], bv.Elems[i]) {
				return false
			}
		}
		return true
	case TupleVal:
		bv, ok := b.(TupleVal)
		if !ok || len(av) != len(bv) {
			return false
		}
		for i := range av {
			if !sameVal(av[i], bv[i]) {
				return false
			}
		}
		return true
	case PtrVal:
		bv, ok := b.(PtrVal)
		if len(av.Alts) != len(bv.Alts) {
			return false
		}
		for i := range av.Alts {
			if av.Alts[i].C != bv.Alts[i].C || !sameVal(av.Alts[i].P, bv.Alts[i].P) {
				return false
			}
		}
		return ok && av.Nil == bv.Nil && av.Obj == bv.Obj && samePath(av.Path, bv.Path) && av.Idx == bv.Idx
	case ErrVal:
		bv, ok := b.(ErrVal)
		if !ok || av.Nil != bv.Nil || len(av.Is) != len(bv.Is) || len(av.As) != len(bv.As) || len(av.Data) != len(bv.Data) {
			return false
		}
		for k, v := range av.Is {
			if bv.Is[k] != v {
				return false
			}
		}
		for k, v := range av.As {
			if bv.As[k] != v {
				return false
			}
		}
		for k, v := range av.Data {
			if bv.Data[k] != v {
				return false
			}
		}
		return true
	case OpaqueVal, RegexpVal, MapVal, rangeIter:
		return true
	case SymListVal:
		bv, ok := b.(SymListVal)
		return ok && av.Sym == bv.Sym
	case ListSliceVal:
		bv, ok := b.(ListSliceVal)
		return ok && av.Obj == bv.Obj && av.Lo == bv.Lo && av.Hi == bv.Hi
	case FuncVal:
		bv, ok := b.(FuncVal)
		if !ok || av.Fn != bv.Fn || av.Global != bv.Global || av.Sym != bv.Sym || len(av.Free) != len(bv.Free) {
			return false
		}
		for i := range av.Free {
			if !sameVal(av.Free[i], bv.Free[i]) {
				return false
			}
		}
		return true
	}
	return false
}
