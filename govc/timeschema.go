package main

// Assumed contracts of package time, stated with the calendar specification functions of
// /repo/internal/zz_contracts_verif.go (leap, dim, realDay, ord). int mode only.
//
// A time.Time is abstracted to: its civil date (Y,M,D) in its own location, whether it is the zero Time,
// whether it is a midnight in UTC, and (for UTC values) its instant in nanoseconds since 0001-01-01T00:00:00Z.
// The schemas are claimed for |year|,|month|,|day| <= 10^10 (time.Time itself reaches about +-292*10^9 years).

import (
	"fmt"
	"go/types"
	"math/big"

	"golang.org/x/tools/go/ssa"
)

func isTimeType(t types.Type) bool {
	n, ok := t.(*types.Named)
	return ok && n.Obj().Pkg() != nil && n.Obj().Pkg().Path() == "time" && n.Obj().Name() == "Time"
}

var nsPerDay = new(big.Int).Mul(big.NewInt(86400), big.NewInt(1000000000))

// calFact evaluates a specification expression over the calendar functions with the given integer bindings.
func (x *Exec) calFact(expr string, vars map[string]*Term) *Term {
	ip := x.w.Pkgs["internal"]
	if ip == nil {
		x.fail("time schemas need the calendar specification functions of package internal")
	}
	ex, err := ParseSpecExpr(expr)
	if err != nil {
		x.fail("internal error in time schema %q: %v", expr, err)
	}
	env := &SpecEnv{x: x, pk: ip, vars: map[string]SVal{}, pre: x.entry, post: x.entry, tparams: map[string]types.Type{}}
	for k, v := range vars {
		env.vars[k] = SVal{V: v, T: typInt}
	}
	var res *Term
	func() {
		defer func() {
			if r := recover(); r != nil {
				if se, ok := r.(specErr); ok {
					x.fail("time schema %q: %s", expr, se.msg)
				}
				panic(r)
			}
		}()
		res = env.evalBool(ex)
	}()
	return res
}

func (x *Exec) calInt(expr string, vars map[string]*Term) *Term {
	ip := x.w.Pkgs["internal"]
	ex, err := ParseSpecExpr(expr)
	if err != nil {
		x.fail("internal error in time schema %q: %v", expr, err)
	}
	env := &SpecEnv{x: x, pk: ip, vars: map[string]SVal{}, pre: x.entry, post: x.entry, tparams: map[string]types.Type{}}
	for k, v := range vars {
		env.vars[k] = SVal{V: v, T: typInt}
	}
	var res *Term
	func() {
		defer func() {
			if r := recover(); r != nil {
				if se, ok := r.(specErr); ok {
					x.fail("time schema %q: %s", expr, se.msg)
				}
				panic(r)
			}
		}()
		res = env.asInt(env.eval(ex), tyInt)
	}()
	return res
}

func (x *Exec) needInt(what string) {
	if x.o.M.BV {
		x.fail("%s: time schemas need `mode int`", what)
	}
}

func (x *Exec) freshTime(prefix string) TimeVal {
	o := x.o
	x.needInt("time.Time value")
	t := TimeVal{Zero: o.Fresh(prefix+".zero", BoolSort), Y: o.Fresh(prefix+".Y", IntSort), M: o.Fresh(prefix+".M", IntSort), D: o.Fresh(prefix+".D", IntSort),
		UTCMid: o.Fresh(prefix+".utcmid", BoolSort), Ns: o.Fresh(prefix+".ns", IntSort)}
	o.SetRange64(t.M, 1, 12)
	o.SetRange64(t.D, 1, 31)
	x.assume(x.calFact("realDay(Y, M, D)", map[string]*Term{"Y": t.Y, "M": t.M, "D": t.D}))
	x.assume(o.Implies(t.Zero, o.And(o.Eq(t.Y, o.Int(1)), o.Eq(t.M, o.Int(1)), o.Eq(t.D, o.Int(1)))))
	x.assume(o.Implies(t.UTCMid, o.Eq(t.Ns, o.Mul(o.IntBig(nsPerDay), o.Sub(x.calInt("ord(Y, M, D)", map[string]*Term{"Y": t.Y, "M": t.M, "D": t.D}), o.Int(1))))))
	x.assume(o.Implies(t.UTCMid, o.Eq(t.Zero, o.And(o.Eq(t.Y, o.Int(1)), o.Eq(t.M, o.Int(1)), o.Eq(t.D, o.Int(1))))))
	return t
}

var calDomain = big.NewInt(10000000000)

func (x *Exec) inCalDomain(ts ...*Term) *Term {
	o := x.o
	var cs []*Term
	for _, t := range ts {
		cs = append(cs, o.Le(o.IntBig(new(big.Int).Neg(calDomain)), t), o.Le(t, o.IntBig(calDomain)))
	}
	return o.And(cs...)
}

// utcMidnight: the Time that time.Date(y, m, d, 0,0,0,0, UTC) yields: the normalised civil date.
func (x *Exec) utcMidnight(st *State, y, m, d *Term, tag string) TimeVal {
	o := x.o
	seq := x.callSeq
	x.callSeq++
	p := fmt.Sprintf("%s%d", tag, seq)
	t := TimeVal{Y: o.Fresh(p+".Y", IntSort), M: o.Fresh(p+".M", IntSort), D: o.Fresh(p+".D", IntSort), UTCMid: o.True()}
	o.SetRange64(t.M, 1, 12)
	o.SetRange64(t.D, 1, 31)
	vars := map[string]*Term{"Y": t.Y, "M": t.M, "D": t.D, "y": y, "m": m, "d": d}
	dom := x.inCalDomain(y, m, d)
	x.assume(x.calFact("realDay(Y, M, D)", vars))
	x.assume(o.Implies(o.And(st.Guard, dom), x.calFact("ord(Y, M, D) == ord(y + fdiv(m-1, 12), fmod(m-1, 12)+1, 1) + d - 1", vars)))
	t.Zero = o.And(o.Eq(t.Y, o.Int(1)), o.Eq(t.M, o.Int(1)), o.Eq(t.D, o.Int(1)))
	t.Ns = o.Mul(o.IntBig(nsPerDay), o.Sub(x.calInt("ord(Y, M, D)", vars), o.Int(1)))
	return t
}

func init() {
	extSchemas["time.Date"] = func(x *Exec, st *State, fn *ssa.Function, args []Val, c *ssa.CallCommon) Val {
		x.needInt("time.Date")
		for i := 3; i <= 6; i++ {
			if k, ok := args[i].(*Term).ConstInt64(); !ok || k != 0 {
				x.fail("time.Date: only midnight (0,0,0,0) is modelled")
			}
		}
		if ov, ok := args[7].(OpaqueVal); !ok || ov.What != "time.UTC" {
			x.fail("time.Date: only time.UTC is modelled")
		}
		return x.utcMidnight(st, args[0].(*Term), args[1].(*Term), args[2].(*Term), "date")
	}
	extSchemas["(time.Time).IsZero"] = func(x *Exec, st *State, fn *ssa.Function, args []Val, c *ssa.CallCommon) Val {
		return args[0].(TimeVal).Zero
	}
	extSchemas["(time.Time).Date"] = func(x *Exec, st *State, fn *ssa.Function, args []Val, c *ssa.CallCommon) Val {
		t := args[0].(TimeVal)
		return TupleVal{t.Y, t.M, t.D}
	}
	extSchemas["(time.Time).AddDate"] = func(x *Exec, st *State, fn *ssa.Function, args []Val, c *ssa.CallCommon) Val {
		o := x.o
		t := args[0].(TimeVal)
		x.oblige("pre", "time.AddDate", nil, "receiver is a UTC midnight (domain of the assumed contract)", st.Guard, t.UTCMid)
		return x.utcMidnight(st, o.Add(t.Y, args[1].(*Term)), o.Add(t.M, args[2].(*Term)), o.Add(t.D, args[3].(*Term)), "adddate")
	}
	extSchemas["(time.Time).Add"] = func(x *Exec, st *State, fn *ssa.Function, args []Val, c *ssa.CallCommon) Val {
		o := x.o
		t := args[0].(TimeVal)
		x.oblige("pre", "time.Add", nil, "receiver is a UTC midnight (domain of the assumed contract)", st.Guard, t.UTCMid)
		seq := x.callSeq
		x.callSeq++
		p := fmt.Sprintf("add%d", seq)
		ns := o.Add(t.Ns, args[1].(*Term))
		r := TimeVal{Y: o.Fresh(p+".Y", IntSort), M: o.Fresh(p+".M", IntSort), D: o.Fresh(p+".D", IntSort), Ns: ns}
		o.SetRange64(r.M, 1, 12)
		o.SetRange64(r.D, 1, 31)
		vars := map[string]*Term{"Y": r.Y, "M": r.M, "D": r.D}
		x.assume(x.calFact("realDay(Y, M, D)", vars))
		x.assume(o.Implies(st.Guard, o.Eq(x.calInt("ord(Y, M, D)", vars), o.Add(o.Div(ns, o.IntBig(nsPerDay)), o.Int(1)))))
		r.UTCMid = o.Eq(o.Mod(ns, o.IntBig(nsPerDay)), o.Int(0))
		r.Zero = o.Eq(ns, o.Int(0))
		return r
	}
	extSchemas["(time.Time).Sub"] = func(x *Exec, st *State, fn *ssa.Function, args []Val, c *ssa.CallCommon) Val {
		o := x.o
		t, u := args[0].(TimeVal), args[1].(TimeVal)
		x.oblige("pre", "time.Sub", nil, "operands are UTC midnights (domain of the assumed contract)", st.Guard, o.And(t.UTCMid, u.UTCMid))
		d := o.Sub(t.Ns, u.Ns)
		mx, mn := o.IntBig(tyInt.Max()), o.IntBig(tyInt.Min())
		return o.Ite(o.Gt(d, mx), mx, o.Ite(o.Lt(d, mn), mn, d))
	}
	extSchemas["time.Now"] = func(x *Exec, st *State, fn *ssa.Function, args []Val, c *ssa.CallCommon) Val {
		seq := x.callSeq
		x.callSeq++
		return x.freshTime(fmt.Sprintf("now%d", seq))
	}
}

func init() {
	// Duration.Hours() = float64(d/Hour) + float64(d%Hour)/3.6e12 (its source): kept as the pair (d div Hour, d mod Hour)
	extSchemas["(time.Duration).Hours"] = func(x *Exec, st *State, fn *ssa.Function, args []Val, c *ssa.CallCommon) Val {
		o := x.o
		if o.M.BV {
			x.fail("time.Duration.Hours schema needs `mode int`")
		}
		d := args[0].(*Term)
		h := o.IntBig(big.NewInt(3600000000000))
		return FloatQ{Q: o.Div(d, h), R: o.Mod(d, h), Div: 1}
	}
}
