package main

// Discharging obligations: SMT-LIB script generation and the solver race (z3 4.8.12, z3 5.1.0, cvc5).

import (
	"crypto/sha1"
	"bytes"
	"context"
	"fmt"
	"go/types"
	"math/big"
	"os"
	"os/exec"
	"path/filepath"
	"regexp"
	"sort"
	"strings"
	"sync"
	"time"
)

type SolveResult struct {
	Status  string // "unsat", "sat", "unknown", "timeout", "error"
	Solver  string
	Seconds float64
	Output  string
	Model   map[string]string
	Tried   []string
	Script  string
}

type solverSpec struct {
	name string
	argv func(file string, timeoutS int) []string
}

var solvers = []solverSpec{
	{"z3-5.1.0", func(f string, t int) []string { return []string{"z3-new", fmt.Sprintf("-T:%d", t), f} }},
	{"z3-4.8.12", func(f string, t int) []string { return []string{"z3", fmt.Sprintf("-T:%d", t), f} }},
	{"cvc5-1.0.3", func(f string, t int) []string {
		return []string{"cvc5", "--incremental", fmt.Sprintf("--tlimit=%d", t*1000), f}
	}},
}

// localSyms: the call-/havoc-introduced symbols of a term (everything except parameters, configuration and heap roots).
func (x *Exec) localSyms(t *Term) map[*Term]bool {
	if x.symCache == nil {
		x.symCache = map[*Term]map[*Term]bool{}
	}
	if s, ok := x.symCache[t]; ok {
		return s
	}
	out := map[*Term]bool{}
	seen := map[*Term]bool{}
	var walk func(u *Term)
	walk = func(u *Term) {
		if seen[u] {
			return
		}
		seen[u] = true
		if u.Op == "var" {
			n := u.Name
			if !(strings.HasPrefix(n, "p.") || strings.HasPrefix(n, "fv.") || strings.HasPrefix(n, "cfg.") || n == "H0" || n == "alloc0" || strings.HasPrefix(n, "frame.")) {
				out[u] = true
			}
			return
		}
		for _, a := range u.Args {
			walk(a)
		}
	}
	walk(t)
	x.symCache[t] = out
	return out
}

// relevant: cone of influence over local symbols. Dropping hypotheses is always sound for a validity proof.
func (x *Exec) relevant(assumes []*Term, goalParts ...*Term) []*Term {
	return x.relevantDefs(assumes, nil, goalParts...)
}

func (x *Exec) relevantDefs(assumes []*Term, defs []map[*Term]bool, goalParts ...*Term) []*Term {
	rel := map[*Term]bool{}
	for _, g := range goalParts {
		for s := range x.localSyms(g) {
			rel[s] = true
		}
	}
	keep := make([]bool, len(assumes))
	for changed := true; changed; {
		changed = false
		for i, a := range assumes {
			if keep[i] {
				continue
			}
			syms := x.localSyms(a)
			take := len(syms) == 0 || (defs != nil && x.alwaysKeep[i]) // (index-aligned with x.assumes at both call sites that pass defs)
			if i < len(defs) && defs[i] != nil {
				// a defining hypothesis: relevant only through the symbols it defines
				for s := range defs[i] {
					if rel[s] {
						take = true
						break
					}
				}
			} else {
				for s := range syms {
					if rel[s] {
						take = true
						break
					}
				}
			}
			if take {
				keep[i] = true
				changed = true
				for s := range syms {
					rel[s] = true
				}
			}
		}
	}
	var out []*Term
	for i, a := range assumes {
		if keep[i] {
			out = append(out, a)
		}
	}
	return out
}

func (ob *Obligation) Script(getModel bool) string {
	s, mts := ob.scriptTerms(getModel)
	// printing only reads the (immutable) term nodes: it runs outside the lock, so the obligations of one function
	// are printed in parallel
	return s.String(getModel, mts)
}

// scriptTerms builds the assertions of the query (under the function's lock: it creates terms).
func (ob *Obligation) scriptTerms(getModel bool) (*Script, []*Term) {
	x := ob.x
	x.mu.Lock()
	defer x.mu.Unlock()
	s := x.o.NewScript()
	if !ob.Cover && !x.noSlice {
		var as []*Term
		goal := ob.Goal
		if ob.Case != nil && !ob.Case.IsTrue() {
			sm := x.caseSubst(ob.Case)
			if !x.subDone[ob.Case] {
				// atoms comparing a bounded term with a constant are decided by the bounds the case gives
				x.decideAtoms(ob.Case, sm, x.assumes)
				x.subDone[ob.Case] = true
			}
			x.decideAtoms(ob.Case, sm, []*Term{ob.Goal})
			as = x.subCache[ob.Case]
			for len(as) < ob.NAssume {
				as = append(as, x.o.Subst(x.assumes[len(as)], sm))
			}
			x.subCache[ob.Case] = as
			as = append([]*Term{}, as[:ob.NAssume]...)
			goal = x.o.Subst(ob.Goal, sm)
			// propagate equalities var == const that the specialised hypotheses now state outright
			for round := 0; round < 6; round++ {
				m2 := map[*Term]*Term{}
				var scan func(t *Term)
				scan = func(t *Term) {
					switch t.Op {
					case "and":
						for _, a := range t.Args {
							scan(a)
						}
					case "=":
						a, b := t.Args[0], t.Args[1]
						leaf := func(u *Term) bool { return u.Op == "var" || u.Op == "select" }
						if a.IsConst() && leaf(b) {
							m2[b] = a
						} else if b.IsConst() && leaf(a) {
							m2[a] = b
						} else if leaf(a) && !leaf(b) && !b.IsConst() && a.Sort.Kind == SInt && !occurs(a, b) {
							m2[a] = b // definition of a byte / value read from memory
						} else if leaf(b) && !leaf(a) && !a.IsConst() && b.Sort.Kind == SInt && !occurs(b, a) {
							m2[b] = a
						}
					}
				}
				for _, a := range as {
					scan(a)
				}
				// a definition must not mention another symbol that is being replaced in the same round
				// (in a fixed order, so that the generated scripts are the same on every run)
				sortedKeys := func() []*Term {
					ks := make([]*Term, 0, len(m2))
					for v := range m2 {
						ks = append(ks, v)
					}
					sort.Slice(ks, func(i, j int) bool { return ks[i].id < ks[j].id })
					return ks
				}
				for _, v := range sortedKeys() {
					d := m2[v]
					if d.IsConst() {
						continue
					}
					for _, w := range sortedKeys() {
						if w != v && occurs(w, d) {
							delete(m2, v)
							break
						}
					}
				}
				// hypotheses asserted outright are true wherever they occur inside other hypotheses
				owner := map[*Term]int{}
				var addWhole func(a *Term, i int)
				addWhole = func(a *Term, i int) {
					if a.Op == "and" {
						for _, b := range a.Args {
							addWhole(b, i)
						}
					}
					if a.Sort == BoolSort && a.Op != "true" && a.Op != "false" {
						if _, ok := owner[a]; !ok {
							owner[a] = i
						}
					}
				}
				for i, a := range as {
					addWhole(a, i)
				}
				changed := false
				for i, a := range as {
					mm := map[*Term]*Term{}
					for w, oi := range owner {
						if oi != i {
							mm[w] = x.o.True()
						}
					}
					na := x.o.Subst(a, mm)
					if na != a {
						as[i] = na
						changed = true
					}
				}
				if len(m2) == 0 && !changed {
					break
				}
				var eqs []*Term
				for _, v := range sortedKeys() {
					eqs = append(eqs, x.o.mk("=", BoolSort, "", nil, v, m2[v]))
				}
				for i := range as {
					as[i] = x.o.Subst(as[i], m2)
				}
				goal = x.o.Subst(goal, m2)
				as = append(as, eqs...)
			}
			rel := x.relevantDefs(as, x.assumeDefs, goal, ob.Case)
			for _, a := range rel {
				s.Assert(a)
			}
			for _, a := range x.instantiate(rel, goal) {
				s.Assert(a)
			}
			s.Assert(ob.Case)
		} else {
			rel := x.relevantDefs(x.assumes[:ob.NAssume], x.assumeDefs, goal)
			for _, a := range rel {
				s.Assert(a)
			}
			for _, a := range x.instantiate(rel, goal) {
				s.Assert(a)
			}
		}
		s.Assert(x.o.Not(goal))
		ob.assertSmall(s)
		var mts []*Term
		if getModel {
			for _, it := range x.modelItems() {
				mts = append(mts, it.Term)
			}
		}
		s.PrepareFacts(mts)
		return s, mts
	}
	if ob.Case != nil && !ob.Case.IsTrue() {
		// specialise the query to the case: facts of the form t == const (and the case's atoms) are substituted
		sm := x.caseSubst(ob.Case)
		as := x.subCache[ob.Case]
		for len(as) < ob.NAssume {
			as = append(as, x.o.Subst(x.assumes[len(as)], sm))
		}
		x.subCache[ob.Case] = as
		for _, a := range as[:ob.NAssume] {
			s.Assert(a)
		}
		s.Assert(ob.Case)
		s.Assert(x.o.Not(x.o.Subst(ob.Goal, sm)))
	} else {
		for _, a := range x.assumes[:ob.NAssume] {
			s.Assert(a)
		}
		s.Assert(x.o.Not(ob.Goal))
	}
	ob.assertSmall(s)
	var mts []*Term
	if getModel {
		for _, it := range x.modelItems() {
			mts = append(mts, it.Term)
		}
	}
	s.PrepareFacts(mts)
	return s, mts
}

// assertSmall (refutation pass): ask for a counterexample whose string and slice parameters are at most
// ob.SmallLen bytes long, so that it can be replayed on the real code.
func (ob *Obligation) assertSmall(s *Script) {
	if ob.SmallLen <= 0 {
		return
	}
	o := ob.x.o
	for _, it := range ob.x.modelItems() {
		if strings.HasSuffix(it.Key, ".len") && it.Term.Sort == o.IdxSort() {
			s.Assert(o.IdxLe(it.Term, o.Idx(int64(ob.SmallLen))))
		}
	}
}

// ModelValues maps the keys of modelItems to the values of a (get-value ...) answer.
func (ob *Obligation) ModelValues(out string) map[string]string {
	if ob.x == nil {
		return map[string]string{"witness": strings.TrimSpace(out)}
	}
	x := ob.x
	x.mu.Lock()
	items := x.modelItems()
	x.mu.Unlock()
	vals := parseGetValue(out)
	m := map[string]string{}
	for i, it := range items {
		if v, ok := vals[fmt.Sprintf("mv!%d", i)]; ok {
			m[it.Key] = v
		}
	}
	return m
}

var getValRe = regexp.MustCompile(`\(\s*(mv![0-9]+)\s+((?:\(-\s*[0-9]+\))|(?:#x[0-9a-fA-F]+)|(?:#b[01]+)|(?:[0-9]+)|true|false)\s*\)`)

func parseGetValue(out string) map[string]string {
	m := map[string]string{}
	for _, g := range getValRe.FindAllStringSubmatch(out, -1) {
		m[g[1]] = g[2]
	}
	return m
}

// caseSubst derives a substitution from a case hypothesis: conjunct atoms become true, negated atoms false,
// and equalities with a constant replace the non-constant side.
func (x *Exec) caseSubst(cs *Term) map[*Term]*Term {
	if x.subMaps == nil {
		x.subMaps = map[*Term]map[*Term]*Term{}
		x.subCache = map[*Term][]*Term{}
		x.subDone = map[*Term]bool{}
	}
	if m, ok := x.subMaps[cs]; ok {
		return m
	}
	o := x.o
	m := map[*Term]*Term{}
	var walk func(t *Term)
	walk = func(t *Term) {
		switch t.Op {
		case "and":
			for _, a := range t.Args {
				walk(a)
			}
			return
		case "not":
			if t.Args[0].Sort == BoolSort && t.Args[0].Op != "true" && t.Args[0].Op != "false" {
				m[t.Args[0]] = o.False()
			}
			return
		case "=":
			a, b := t.Args[0], t.Args[1]
			if a.IsConst() && !b.IsConst() && (b.Op == "var" || b.Op == "select") {
				m[b] = a
			} else if b.IsConst() && !a.IsConst() && (a.Op == "var" || a.Op == "select") {
				m[a] = b
			}
		}
		if t.Sort == BoolSort && t.Op != "true" && t.Op != "false" {
			m[t] = o.True()
		}
	}
	walk(cs)
	x.subMaps[cs] = m
	return m
}

func occurs(x, in *Term) bool {
	seen := map[*Term]bool{}
	var rec func(t *Term) bool
	rec = func(t *Term) bool {
		if t == x {
			return true
		}
		if seen[t] {
			return false
		}
		seen[t] = true
		for _, a := range t.Args {
			if rec(a) {
				return true
			}
		}
		return false
	}
	return rec(in)
}

// decideAtoms: from the case's facts (<= k t) / not (<= k t) / (<= t k) derive bounds on t and decide every
// other atom of those shapes occurring in terms; decided atoms are added to the substitution.
func (x *Exec) decideAtoms(cs *Term, sm map[*Term]*Term, terms []*Term) {
	o := x.o
	lo := map[*Term]*big.Int{}
	hi := map[*Term]*big.Int{}
	setLo := func(t *Term, v *big.Int) {
		if c, ok := lo[t]; !ok || v.Cmp(c) > 0 {
			lo[t] = v
		}
	}
	setHi := func(t *Term, v *big.Int) {
		if c, ok := hi[t]; !ok || v.Cmp(c) < 0 {
			hi[t] = v
		}
	}
	one := big.NewInt(1)
	var walkCase func(t *Term, pos bool)
	walkCase = func(t *Term, pos bool) {
		switch t.Op {
		case "and":
			if pos {
				for _, a := range t.Args {
					walkCase(a, true)
				}
			}
		case "not":
			walkCase(t.Args[0], !pos)
		case "<=":
			a, b := t.Args[0], t.Args[1]
			if a.IsConst() && !b.IsConst() {
				if pos {
					setLo(b, a.IVal)
				} else {
					setHi(b, new(big.Int).Sub(a.IVal, one))
				}
			} else if b.IsConst() && !a.IsConst() {
				if pos {
					setHi(a, b.IVal)
				} else {
					setLo(a, new(big.Int).Add(b.IVal, one))
				}
			}
		}
	}
	walkCase(cs, true)
	if len(lo) == 0 && len(hi) == 0 {
		return
	}
	seen := map[*Term]bool{}
	var walk func(t *Term)
	walk = func(t *Term) {
		if seen[t] {
			return
		}
		seen[t] = true
		if t.Op == "<=" {
			a, b := t.Args[0], t.Args[1]
			if _, done := sm[t]; !done {
				if a.IsConst() && !b.IsConst() { // k <= b
					if l, ok := lo[b]; ok && a.IVal.Cmp(l) <= 0 {
						sm[t] = o.True()
					} else if h, ok := hi[b]; ok && a.IVal.Cmp(h) > 0 {
						sm[t] = o.False()
					}
				} else if b.IsConst() && !a.IsConst() { // a <= k
					if h, ok := hi[a]; ok && h.Cmp(b.IVal) <= 0 {
						sm[t] = o.True()
					} else if l, ok := lo[a]; ok && l.Cmp(b.IVal) > 0 {
						sm[t] = o.False()
					}
				}
			}
		}
		if t.Op == "=" {
			a, b := t.Args[0], t.Args[1]
			if _, done := sm[t]; !done {
				var v, k *Term
				if a.IsConst() && !b.IsConst() {
					v, k = b, a
				} else if b.IsConst() && !a.IsConst() {
					v, k = a, b
				}
				if v != nil && k.Sort.Kind == SInt {
					if l, ok := lo[v]; ok && k.IVal.Cmp(l) < 0 {
						sm[t] = o.False()
					} else if h, ok := hi[v]; ok && k.IVal.Cmp(h) > 0 {
						sm[t] = o.False()
					}
				}
			}
		}
		for _, a := range t.Args {
			walk(a)
		}
	}
	for _, t := range terms {
		walk(t)
	}
}

// ModelItem names one concrete piece of the function's input in a counterexample.
type ModelItem struct {
	Key  string // e.g. "input.len", "input[3]", "r", "cfg.date.MaxInputLength", "d.year"
	Term *Term
}

const modelBytes = 64

// modelItems: the terms describing the function's inputs (parameters, their pointees, configuration variables).
func (x *Exec) modelItems() []ModelItem {
	o := x.o
	var items []ModelItem
	var add func(key string, v Val)
	add = func(key string, v Val) {
		switch t := v.(type) {
		case *Term:
			items = append(items, ModelItem{key, t})
		case StrVal:
			items = append(items, ModelItem{key + ".len", t.Len})
			for i := 0; i < modelBytes; i++ {
				items = append(items, ModelItem{fmt.Sprintf("%s[%d]", key, i), o.Select(t.Arr, o.IdxAdd(t.Off, o.Idx(int64(i))))})
			}
		case SliceVal:
			items = append(items, ModelItem{key + ".len", t.Len}, ModelItem{key + ".cap", t.Cap}, ModelItem{key + ".nil", o.Eq(t.Reg, o.Int(0))})
			arr := o.Select(x.entry.H, t.Reg)
			for i := 0; i < modelBytes; i++ {
				items = append(items, ModelItem{fmt.Sprintf("%s[%d]", key, i), o.Select(arr, o.IdxAdd(t.Off, o.Idx(int64(i))))})
			}
		case StructVal:
			st, _ := t.T.Underlying().(*types.Struct)
			for i, f := range t.F {
				n := fmt.Sprint(i)
				if st != nil {
					n = st.Field(i).Name()
				}
				add(key+"."+n, f)
			}
		case PtrVal:
			items = append(items, ModelItem{key + ".nil", t.Nil})
			if t.Obj != nil && t.Obj.Init != nil {
				add("*"+key, t.Obj.Init)
			}
		case TimeVal:
			items = append(items, ModelItem{key + ".zero", t.Zero}, ModelItem{key + ".Y", t.Y}, ModelItem{key + ".M", t.M}, ModelItem{key + ".D", t.D})
		case ErrVal:
			items = append(items, ModelItem{key + ".nil", t.Nil})
		case IfaceVal:
			items = append(items, ModelItem{key + ".tag", t.Tag})
		}
	}
	var names []string
	for n := range x.params {
		names = append(names, n)
	}
	sort.Strings(names)
	for _, n := range names {
		add(n, x.params[n].V)
	}
	var gs []string
	for k := range x.globals {
		gs = append(gs, k)
	}
	sort.Strings(gs)
	for _, k := range gs {
		if t, ok := x.globals[k].(*Term); ok && t.Op == "var" {
			items = append(items, ModelItem{"cfg." + k, t})
		}
	}
	return items
}

func runSolver(ctx context.Context, sp solverSpec, file string, timeoutS int) (status, out string, secs float64) {
	argv := sp.argv(file, timeoutS)
	cctx, cancel := context.WithTimeout(ctx, time.Duration(timeoutS+2)*time.Second)
	defer cancel()
	cmd := exec.CommandContext(cctx, argv[0], argv[1:]...)
	var buf bytes.Buffer
	cmd.Stdout = &buf
	cmd.Stderr = &buf
	t0 := time.Now()
	err := cmd.Run()
	secs = time.Since(t0).Seconds()
	out = buf.String()
	first := strings.TrimSpace(strings.SplitN(out, "\n", 2)[0])
	switch first {
	case "unsat", "sat", "unknown":
		return first, out, secs
	case "timeout":
		return "timeout", out, secs
	}
	if cctx.Err() != nil || strings.Contains(out, "interrupted by timeout") || strings.Contains(out, "interrupted by SIG") {
		return "timeout", out, secs
	}
	if err != nil || strings.Contains(out, "error") {
		return "error", out, secs
	}
	return "unknown", out, secs
}

var scratchDir string

func scratch() string {
	if scratchDir == "" {
		d, err := os.MkdirTemp("", "govc-")
		if err != nil {
			panic(err)
		}
		scratchDir = d
	}
	return scratchDir
}

func cleanupScratch() {
	if scratchDir != "" {
		os.RemoveAll(scratchDir)
		scratchDir = ""
	}
}

var fileSeq int
var fileMu sync.Mutex

// Solve decides one obligation. Phase 1: z3 5.1.0 alone with a short limit; phase 2: race of all three.
func (ob *Obligation) Solve(timeoutS int, keepScript bool) *SolveResult {
	if ob.RawErr != "" {
		return &SolveResult{Status: "error", Output: ob.RawErr}
	}
	if ob.Trivial && !ob.Cover {
		if ob.Discipline {
			return &SolveResult{Status: "unsat", Solver: "append-discipline", Seconds: 0}
		}
		return &SolveResult{Status: "unsat", Solver: "simplifier", Seconds: 0}
	}
	if ob.Cover && ob.Goal.IsTrue() {
		// not(goal) is false: the covered condition is unreachable
		return &SolveResult{Status: "unsat", Solver: "simplifier"}
	}
	script := ob.RawScript
	if script == "" {
		script = ob.Script(true)
	}
	if os.Getenv("GOVC_SCRIPTHASH") != "" {
		// determinism self-test: print a digest of every script instead of solving
		h := sha1.Sum([]byte(script))
		fmt.Fprintf(os.Stderr, "SCRIPT %s %x\n", ob.Name, h[:8])
		if d := os.Getenv("GOVC_SCRIPTHASH"); strings.HasPrefix(d, "/") {
			os.MkdirAll(d, 0o755)
			os.WriteFile(filepath.Join(d, strings.NewReplacer("/", "_", " ", "_").Replace(ob.Name)+".smt2"), []byte(script), 0o644)
		}
		return &SolveResult{Status: "unknown", Output: "script hash mode"}
	}
	if ob.Cover && timeoutS > 3 {
		timeoutS = 3
		if strings.Contains(ob.Name, "/cover(antecedent(") {
			timeoutS = 1 // only a quick `unsat` matters here
		}
	}
	fileMu.Lock()
	fileSeq++
	fn := filepath.Join(scratch(), fmt.Sprintf("q%d.smt2", fileSeq))
	fileMu.Unlock()
	if err := os.WriteFile(fn, []byte(script), 0o644); err != nil {
		return &SolveResult{Status: "error", Output: err.Error()}
	}
	defer os.Remove(fn)
	res := &SolveResult{}
	if keepScript {
		res.Script = script
	}
	t0 := time.Now()
	// race
	type ans struct {
		st, out, name string
	}
	ctx, cancel := context.WithCancel(context.Background())
	defer cancel()
	nRun := len(solvers)
	// Recursive specification functions can send a solver into endless unfolding. The same query with those
	// functions left uninterpreted has fewer hypotheses, so an `unsat` for it is an `unsat` for the real query:
	// it is raced alongside (only its unsat answers count).
	var abstractFile string
	if abs, ok := abstractRecFuns(script); ok && !ob.Cover {
		fileMu.Lock()
		fileSeq++
		abstractFile = filepath.Join(scratch(), fmt.Sprintf("q%d.smt2", fileSeq))
		fileMu.Unlock()
		if err := os.WriteFile(abstractFile, []byte(abs), 0o644); err == nil {
			defer os.Remove(abstractFile)
		} else {
			abstractFile = ""
		}
	}
	ch := make(chan ans, 2*len(solvers))
	for _, sp := range solvers {
		sp := sp
		go func() {
			s, o, _ := runSolver(ctx, sp, fn, timeoutS)
			ch <- ans{s, o, sp.name}
		}()
		if abstractFile != "" && sp.name != "z3-4.8.12" {
			nRun++
			go func() {
				s, o, _ := runSolver(ctx, sp, abstractFile, timeoutS)
				if s != "unsat" {
					s = "unknown"
				}
				ch <- ans{s, o, sp.name + "(rec functions uninterpreted)"}
			}()
		}
	}
	final := ans{st: "unknown"}
	for i := 0; i < nRun; i++ {
		a := <-ch
		res.Tried = append(res.Tried, a.name+":"+a.st)
		if a.st == "unsat" || a.st == "sat" {
			final = a
			cancel()
			break
		}
		if a.st == "timeout" && final.st == "unknown" {
			final = ans{st: "timeout", out: a.out, name: a.name}
		}
		if final.out == "" {
			final.out = a.out
		}
	}
	res.Status, res.Solver, res.Output = final.st, final.name, final.out
	res.Seconds = time.Since(t0).Seconds()
	if final.st == "sat" {
		res.Model = ob.ModelValues(final.out)
	}
	return res
}

// abstractRecFuns rewrites the (define-funs-rec ...) line of a script into declare-funs.
func abstractRecFuns(script string) (string, bool) {
	const kw = "(define-funs-rec "
	k := strings.Index(script, kw)
	if k < 0 {
		return "", false
	}
	end := strings.Index(script[k:], "\n")
	if end < 0 {
		return "", false
	}
	line := script[k : k+end]
	// line = (define-funs-rec (DECL...) (BODY...)); split the first list
	items := sexprItems(line[len(kw):])
	if len(items) < 1 {
		return "", false
	}
	decls := sexprItems(items[0][1 : len(items[0])-1])
	var sb strings.Builder
	for _, d := range decls {
		parts := sexprItems(d[1 : len(d)-1]) // name (params) Res
		if len(parts) != 3 {
			return "", false
		}
		var sorts []string
		for _, p := range sexprItems(parts[1][1 : len(parts[1])-1]) {
			ps := sexprItems(p[1 : len(p)-1])
			if len(ps) != 2 {
				return "", false
			}
			sorts = append(sorts, ps[1])
		}
		fmt.Fprintf(&sb, "(declare-fun %s (%s) %s)\n", parts[0], strings.Join(sorts, " "), parts[2])
	}
	return script[:k] + strings.TrimSuffix(sb.String(), "\n") + script[k+end:], true
}

// sexprItems splits the top-level items of a sequence of s-expressions.
func sexprItems(s string) []string {
	var out []string
	depth, start := 0, -1
	for i := 0; i < len(s); i++ {
		c := s[i]
		switch {
		case c == '(':
			if depth == 0 && start < 0 {
				start = i
			}
			depth++
		case c == ')':
			depth--
			if depth == 0 && start >= 0 {
				out = append(out, s[start:i+1])
				start = -1
			}
			if depth < 0 {
				return out
			}
		case c == ' ' || c == '\t':
			if depth == 0 && start >= 0 {
				out = append(out, s[start:i])
				start = -1
			}
		default:
			if depth == 0 && start < 0 {
				start = i
			}
		}
	}
	if start >= 0 && depth == 0 {
		out = append(out, s[start:])
	}
	return out
}

var defFunRe = regexp.MustCompile(`\(define-fun\s+(\S+)\s+\(\)\s+(\([^()]*\)|\S+)\s+`)

// parseModel extracts scalar constants from a (get-model) answer: name -> value text.
func parseModel(out string) map[string]string {
	m := map[string]string{}
	idx := defFunRe.FindAllStringSubmatchIndex(out, -1)
	for k, loc := range idx {
		name := out[loc[2]:loc[3]]
		start := loc[1]
		end := len(out)
		if k+1 < len(idx) {
			end = idx[k+1][0]
		}
		body := strings.TrimSpace(out[start:end])
		// strip the closing paren of the define-fun
		body = strings.TrimRight(body, " \n\t")
		if strings.HasSuffix(body, ")") {
			body = strings.TrimSpace(body[:len(body)-1])
		}
		if k+1 == len(idx) {
			// last: also strip the model's closing paren if present
			body = strings.TrimSpace(strings.TrimSuffix(body, ")"))
		}
		m[name] = body
	}
	return m
}

// SolveAll runs the obligations in parallel.
func SolveAll(obls []*Obligation, timeoutS int, workers int, keepScripts bool) {
	var wg sync.WaitGroup
	ch := make(chan *Obligation)
	// Once several instances (parts, cases, returns) of one clause of one function are undecided or refuted, the
	// remaining instances of that clause are not worth a solver timeout each: the clause is reported anyway.
	var mu sync.Mutex
	failed := map[string]int{}
	group := func(ob *Obligation) string { return ob.Fn + "|" + partCaseRe.ReplaceAllString(stableName(ob.Name), "") }
	for i := 0; i < workers; i++ {
		wg.Add(1)
		go func() {
			defer wg.Done()
			for ob := range ch {
				if ob.Presolved && ob.Result != nil {
					continue
				}
				g := group(ob)
				mu.Lock()
				n := failed[g]
				mu.Unlock()
				if n >= 6 && !ob.Cover {
					ob.Result = &SolveResult{Status: "unknown", Output: "not attempted: six other instances of this clause are already undecided or refuted"}
					continue
				}
				ob.Result = ob.Solve(timeoutS, keepScripts)
				if ob.Result.Status != "unsat" && !ob.Cover {
					mu.Lock()
					failed[g]++
					mu.Unlock()
				}
			}
		}()
	}
	for _, ob := range obls {
		ch <- ob
	}
	close(ch)
	wg.Wait()
}

var partCaseRe = regexp.MustCompile(`\.(part|case)[0-9]+`)

func contextBackground() context.Context { return context.Background() }
