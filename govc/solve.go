package main

// Discharging obligations: SMT-LIB script generation and the solver race (z3 4.8.12, z3 5.1.0, cvc5).

import (
	"bytes"
	"context"
	"fmt"
	"os"
	"os/exec"
	"path/filepath"
	"regexp"
	"strings"
	"sync"
	"time"
)

type SolveResult struct {
	Status  string // "unsat", "sat", "unknown", "timeout", "error"
	Solver  string
	Seconds float64
	Output  string
	Model   map[string]string
	Tried   []string
	Script  string
}

type solverSpec struct {
	name string
	argv func(file string, timeoutS int) []string
}

var solvers = []solverSpec{
	{"z3-5.1.0", func(f string, t int) []string { return []string{"z3-new", fmt.Sprintf("-T:%d", t), f} }},
	{"z3-4.8.12", func(f string, t int) []string { return []string{"z3", fmt.Sprintf("-T:%d", t), f} }},
	{"cvc5-1.0.3", func(f string, t int) []string {
		return []string{"cvc5", "--incremental", fmt.Sprintf("--tlimit=%d", t*1000), f}
	}},
}

func (ob *Obligation) Script(getModel bool) string {
	x := ob.x
	x.mu.Lock()
	defer x.mu.Unlock()
	s := x.o.NewScript()
	for _, a := range x.assumes[:ob.NAssume] {
		s.Assert(a)
	}
	s.Assert(x.o.Not(ob.Goal))
	var mts []*Term
	if getModel {
		mts = x.modelTerms()
	}
	return s.String(getModel, mts)
}

// modelTerms: the leaf symbols describing the function's inputs (for replay).
func (x *Exec) modelTerms() []*Term { return nil }

func runSolver(ctx context.Context, sp solverSpec, file string, timeoutS int) (status, out string, secs float64) {
	argv := sp.argv(file, timeoutS)
	cctx, cancel := context.WithTimeout(ctx, time.Duration(timeoutS+2)*time.Second)
	defer cancel()
	cmd := exec.CommandContext(cctx, argv[0], argv[1:]...)
	var buf bytes.Buffer
	cmd.Stdout = &buf
	cmd.Stderr = &buf
	t0 := time.Now()
	err := cmd.Run()
	secs = time.Since(t0).Seconds()
	out = buf.String()
	first := strings.TrimSpace(strings.SplitN(out, "\n", 2)[0])
	switch first {
	case "unsat", "sat", "unknown":
		return first, out, secs
	case "timeout":
		return "timeout", out, secs
	}
	if cctx.Err() != nil || strings.Contains(out, "interrupted by timeout") || strings.Contains(out, "interrupted by SIG") {
		return "timeout", out, secs
	}
	if err != nil || strings.Contains(out, "error") {
		return "error", out, secs
	}
	return "unknown", out, secs
}

var scratchDir string

func scratch() string {
	if scratchDir == "" {
		d, err := os.MkdirTemp("", "govc-")
		if err != nil {
			panic(err)
		}
		scratchDir = d
	}
	return scratchDir
}

func cleanupScratch() {
	if scratchDir != "" {
		os.RemoveAll(scratchDir)
		scratchDir = ""
	}
}

var fileSeq int
var fileMu sync.Mutex

// Solve decides one obligation. Phase 1: z3 5.1.0 alone with a short limit; phase 2: race of all three.
func (ob *Obligation) Solve(timeoutS int, keepScript bool) *SolveResult {
	if ob.Trivial && !ob.Cover {
		return &SolveResult{Status: "unsat", Solver: "simplifier", Seconds: 0}
	}
	if ob.Cover && ob.Goal.IsTrue() {
		// not(goal) is false: the covered condition is unreachable
		return &SolveResult{Status: "unsat", Solver: "simplifier"}
	}
	script := ob.Script(true)
	if ob.Cover && timeoutS > 3 {
		timeoutS = 3
	}
	fileMu.Lock()
	fileSeq++
	fn := filepath.Join(scratch(), fmt.Sprintf("q%d.smt2", fileSeq))
	fileMu.Unlock()
	if err := os.WriteFile(fn, []byte(script), 0o644); err != nil {
		return &SolveResult{Status: "error", Output: err.Error()}
	}
	defer os.Remove(fn)
	res := &SolveResult{}
	if keepScript {
		res.Script = script
	}
	t0 := time.Now()
	// race
	type ans struct {
		st, out, name string
	}
	ctx, cancel := context.WithCancel(context.Background())
	defer cancel()
	ch := make(chan ans, len(solvers))
	for _, sp := range solvers {
		sp := sp
		go func() {
			s, o, _ := runSolver(ctx, sp, fn, timeoutS)
			ch <- ans{s, o, sp.name}
		}()
	}
	final := ans{st: "unknown"}
	for i := 0; i < len(solvers); i++ {
		a := <-ch
		res.Tried = append(res.Tried, a.name+":"+a.st)
		if a.st == "unsat" || a.st == "sat" {
			final = a
			cancel()
			break
		}
		if a.st == "timeout" && final.st == "unknown" {
			final = ans{st: "timeout", out: a.out, name: a.name}
		}
		if final.out == "" {
			final.out = a.out
		}
	}
	res.Status, res.Solver, res.Output = final.st, final.name, final.out
	res.Seconds = time.Since(t0).Seconds()
	if final.st == "sat" {
		res.Model = parseModel(final.out)
	}
	return res
}

var defFunRe = regexp.MustCompile(`\(define-fun\s+(\S+)\s+\(\)\s+(\([^()]*\)|\S+)\s+`)

// parseModel extracts scalar constants from a (get-model) answer: name -> value text.
func parseModel(out string) map[string]string {
	m := map[string]string{}
	idx := defFunRe.FindAllStringSubmatchIndex(out, -1)
	for k, loc := range idx {
		name := out[loc[2]:loc[3]]
		start := loc[1]
		end := len(out)
		if k+1 < len(idx) {
			end = idx[k+1][0]
		}
		body := strings.TrimSpace(out[start:end])
		// strip the closing paren of the define-fun
		body = strings.TrimRight(body, " \n\t")
		if strings.HasSuffix(body, ")") {
			body = strings.TrimSpace(body[:len(body)-1])
		}
		if k+1 == len(idx) {
			// last: also strip the model's closing paren if present
			body = strings.TrimSpace(strings.TrimSuffix(body, ")"))
		}
		m[name] = body
	}
	return m
}

// SolveAll runs the obligations in parallel.
func SolveAll(obls []*Obligation, timeoutS int, workers int, keepScripts bool) {
	var wg sync.WaitGroup
	ch := make(chan *Obligation)
	for i := 0; i < workers; i++ {
		wg.Add(1)
		go func() {
			defer wg.Done()
			for ob := range ch {
				ob.Result = ob.Solve(timeoutS, keepScripts)
			}
		}()
	}
	for _, ob := range obls {
		ch <- ob
	}
	close(ch)
	wg.Wait()
}
