package main

// Names recorded from the unchanged tree (/verif/names.json, written by `govc names`): the parameter, result,
// captured-variable and loop-variable names of every function of the module. Contracts refer to these names. When a
// function's names differ from the recorded ones only by renaming (same count, same positions), the recorded name
// stays usable as an alias of the renamed one, so that renaming a local or a parameter - which changes nothing a
// property speaks about - does not turn every clause that mentions it into an unresolvable specification.

import (
	"encoding/json"
	"fmt"
	"os"
	"sort"

	"golang.org/x/tools/go/ssa"
)

type fnNames struct {
	Params  []string            `json:"params,omitempty"`
	Free    []string            `json:"free,omitempty"`
	Results []string            `json:"results,omitempty"`
	Loops   map[string][]string `json:"loops,omitempty"` // loop ordinal -> names of the header's phis, in order
	Allocs  []string            `json:"allocs,omitempty"` // named variables that live in memory, in order
}

func namesOf(fn *ssa.Function) *fnNames {
	n := &fnNames{Loops: map[string][]string{}}
	for _, p := range fn.Params {
		n.Params = append(n.Params, p.Name())
	}
	for _, fv := range fn.FreeVars {
		n.Free = append(n.Free, fv.Name())
	}
	res := fn.Signature.Results()
	for i := 0; i < res.Len(); i++ {
		n.Results = append(n.Results, res.At(i).Name())
	}
	for _, b := range fn.Blocks {
		for _, ins := range b.Instrs {
			if a, ok := ins.(*ssa.Alloc); ok && a.Comment != "" {
				n.Allocs = append(n.Allocs, a.Comment)
			}
		}
	}
	for _, l := range findLoops(fn) {
		var ps []string
		for _, ins := range l.Header.Instrs {
			phi, ok := ins.(*ssa.Phi)
			if !ok {
				break
			}
			ps = append(ps, phi.Comment)
		}
		n.Loops[fmt.Sprint(l.Ordinal)] = ps
	}
	return n
}

func (w *World) collectNames() map[string]*fnNames {
	out := map[string]*fnNames{}
	for _, pk := range w.Pkgs {
		for _, fns := range pk.Funcs {
			for _, fn := range fns {
				if len(fn.Blocks) == 0 {
					continue
				}
				out[InstName(fn)] = namesOf(fn)
			}
		}
	}
	return out
}

func (w *World) loadNames(path string) {
	data, err := os.ReadFile(path)
	if err != nil {
		return
	}
	m := map[string]*fnNames{}
	if json.Unmarshal(data, &m) == nil {
		w.Names = m
	}
}

// aliases: recorded name -> current name, for positions where they differ (only when the counts agree and the
// recorded name is not in use now).
func renameAliases(recorded, current []string) map[string]string {
	if len(recorded) != len(current) {
		return nil
	}
	inUse := map[string]bool{}
	for _, c := range current {
		inUse[c] = true
	}
	var out map[string]string
	for i := range recorded {
		if recorded[i] != current[i] && recorded[i] != "" && recorded[i] != "_" && current[i] != "" && !inUse[recorded[i]] {
			if out == nil {
				out = map[string]string{}
			}
			out[recorded[i]] = current[i]
		}
	}
	return out
}

// addNameAliases makes the recorded names of fn's parameters / captured variables usable in vars.
func (w *World) addNameAliases(fn *ssa.Function, vars map[string]SVal) {
	rec := w.Names[InstName(fn)]
	if rec == nil {
		return
	}
	cur := namesOf(fn)
	for _, pair := range [][2][]string{{rec.Params, cur.Params}, {rec.Free, cur.Free}} {
		al := renameAliases(pair[0], pair[1])
		keys := make([]string, 0, len(al))
		for k := range al {
			keys = append(keys, k)
		}
		sort.Strings(keys)
		for _, old := range keys {
			if v, ok := vars[al[old]]; ok {
				if _, taken := vars[old]; !taken {
					vars[old] = v
				}
			}
		}
	}
}

// recordedResultAliases: recorded result names by position (to be added to the current ones).
func (w *World) recordedResultAliases(fn *ssa.Function) map[int]string {
	rec := w.Names[InstName(fn)]
	if rec == nil {
		return nil
	}
	cur := namesOf(fn)
	al := renameAliases(rec.Results, cur.Results)
	if al == nil {
		return nil
	}
	out := map[int]string{}
	for i := range rec.Results {
		if _, ok := al[rec.Results[i]]; ok {
			out[i] = rec.Results[i]
		}
	}
	return out
}

// loopNameAliases: recorded loop-variable name -> current name for loop `ordinal` of fn.
func (w *World) loopNameAliases(fn *ssa.Function, ordinal int, current []string) map[string]string {
	rec := w.Names[InstName(fn)]
	if rec == nil {
		return nil
	}
	return renameAliases(rec.Loops[fmt.Sprint(ordinal)], current)
}

func cmdNames(args []string) {
	repo := "/repo"
	if len(args) > 0 {
		repo = args[0]
	}
	w := loadOrDie(repo)
	data, _ := json.MarshalIndent(w.collectNames(), "", " ")
	fmt.Println(string(data))
}

// currentLocalName: the present name of the in-memory local that was called `old` when the names were recorded.
func (w *World) currentLocalName(fn *ssa.Function, old string) string {
	rec := w.Names[InstName(fn)]
	if rec == nil {
		return old
	}
	if al := renameAliases(rec.Allocs, namesOf(fn).Allocs); al != nil {
		if cur, ok := al[old]; ok {
			return cur
		}
	}
	return old
}
