package main

// Assumed contract of encoding/json.Decoder (Token / More), as a ghost token stream.
//
// The input bytes determine (uninterpreted functions of the content): ntok, the number of well-formed tokens the
// decoder delivers before the input ends or stops being well-formed JSON; for k < ntok the kind and text of token
// k; and `garbage`, whether bytes that are not a token follow token ntok-1. A decoder object carries the ghost
// state (pos, depth, inObj, atKey): the cursor, the current nesting depth, whether the level-1 container is an
// object, and whether the cursor is in key position of that object. Token() enforces the JSON grammar, so:
// kinds are 1..8; at depth 0 no closing delimiter is delivered; in key position of the level-1 object the token
// is a string or '}'; in value position it is not a closing delimiter. More() before the last token says whether the
// next token is a closing delimiter; after the last token it is left unspecified (it peeks at the next byte).
// The model was compared with the real decoder on generated documents by /verif/axiomtest (an empirical check).
// Kinds: 1 '{'  2 '}'  3 '['  4 ']'  5 string  6 number  7 bool  8 null.

import (
	"fmt"
	"go/types"

	"golang.org/x/tools/go/ssa"
)

type DecVal struct {
	View                StrVal
	Pos, Depth          *Term
	InObj, AtKey        *Term
}

func (x *Exec) jsonType(name string) types.Type {
	for _, p := range x.w.Prog.AllPackages() {
		if p.Pkg.Path() == "encoding/json" {
			if m := p.Members[name]; m != nil {
				return m.Type()
			}
		}
	}
	x.fail("type encoding/json.%s not found", name)
	return nil
}

func (x *Exec) tokKind(v StrVal, k *Term) *Term {
	return x.o.UF("json.kind", IntSort, v.Arr, v.Off, v.Len, k)
}
func (x *Exec) tokText(v StrVal, k *Term) StrVal {
	o := x.o
	l := o.UF("json.textlen", IntSort, v.Arr, v.Off, v.Len, k)
	return StrVal{Arr: o.UF("json.text", o.ByteArr(), v.Arr, v.Off, v.Len, k), Off: o.Int(0), Len: l}
}
// tokIsKey: token k is a member key of the top-level object (determined by the document's structure; the Token
// schema states it for the token it delivers from the ghost position).
func (x *Exec) tokIsKey(v StrVal, k *Term) *Term {
	return x.o.UF("json.l1key", BoolSort, v.Arr, v.Off, v.Len, k)
}
// tokIsClose: token k is the '}' that closes the top-level object.
func (x *Exec) tokIsClose(v StrVal, k *Term) *Term {
	return x.o.UF("json.l1close", BoolSort, v.Arr, v.Off, v.Len, k)
}

// tokNKeys: the number of member keys of the top-level object among tokens [0,k) (a function of the document;
// the Token schema states its step for the token it delivers).
func (x *Exec) tokNKeys(v StrVal, k *Term) *Term {
	return x.o.UF("json.nkeys", IntSort, v.Arr, v.Off, v.Len, k)
}
func (x *Exec) tokBool(v StrVal, k *Term) *Term {
	return x.o.UF("json.bool", BoolSort, v.Arr, v.Off, v.Len, k)
}
func (x *Exec) nTok(v StrVal) *Term {
	o := x.o
	n := o.UF("json.ntok", IntSort, v.Arr, v.Off, v.Len)
	x.assume(o.And(o.Le(o.Int(0), n), o.Le(n, v.Len))) // every token takes at least one byte
	return n
}
func (x *Exec) jsonGarbage(v StrVal) *Term {
	return x.o.UF("json.garbage", BoolSort, v.Arr, v.Off, v.Len)
}

func (x *Exec) needIntJSON() {
	if x.o.M.BV {
		x.fail("encoding/json schemas need `mode int`")
	}
}

// decoderOf finds the ghost state of a decoder value (a *json.Decoder, or a `decoder` interface holding one,
// or a symbolic `decoder` parameter).
func (x *Exec) decoderOf(st *State, v Val) (*Object, DecVal) {
	switch d := v.(type) {
	case PtrVal:
		if d.Obj != nil {
			if dv, ok := x.cell(st, d.Obj).(DecVal); ok {
				return d.Obj, dv
			}
		}
	case IfaceVal:
		for _, p := range d.Pay {
			if pv, ok := p.(PtrVal); ok && pv.Obj != nil {
				if dv, ok := x.cell(st, pv.Obj).(DecVal); ok {
					return pv.Obj, dv
				}
			}
		}
		if d.Sym != "" {
			// a symbolic decoder (parameter): its ghost state is symbolic too
			if x.symDecs == nil {
				x.symDecs = map[string]*Object{}
			}
			obj, ok := x.symDecs[d.Sym]
			if !ok {
				o := x.o
				obj = x.newObject("decoder:"+d.Sym, types.Typ[types.Int])
				pos := o.Var(d.Sym+".pos", IntSort)
				depth := o.Var(d.Sym+".depth", IntSort)
				x.assume(o.And(o.Le(o.Int(0), pos), o.Le(o.Int(0), depth)))
				l := o.Var(d.Sym+".doc.len", IntSort)
				x.assume(o.And(o.Le(o.Int(0), l), o.Le(l, o.Int(1<<62))))
				view := StrVal{Arr: o.Var(d.Sym+".doc.arr", o.ByteArr()), Off: o.Int(0), Len: l}
				x.assume(o.Le(pos, x.nTok(view))) // the cursor never passes the last token
				obj.Init = DecVal{View: view, Pos: pos, Depth: depth,
					InObj: o.Var(d.Sym+".inobj", BoolSort), AtKey: o.Var(d.Sym+".atkey", BoolSort)}
				x.symDecs[d.Sym] = obj
			}
			return obj, x.cell(st, obj).(DecVal)
		}
	}
	x.fail("decoder method on a value that is not a modelled json.Decoder")
	return nil, DecVal{}
}

func in2(o *Ops, k *Term, a, b int64) *Term { return o.Or(o.Eq(k, o.Int(a)), o.Eq(k, o.Int(b))) }

// jsonGrammar: what the JSON grammar says about the token at the cursor, given the ghost position.
func (x *Exec) jsonGrammar(st *State, d DecVal) {
	o := x.o
	n := x.nTok(d.View)
	valid := o.Lt(d.Pos, n)
	k := x.tokKind(d.View, d.Pos)
	isClose := in2(o, k, 2, 4)
	x.assume(o.Implies(o.And(st.Guard, valid), o.And(
		o.Le(o.Int(1), k), o.Le(k, o.Int(8)),
		o.Implies(o.Eq(d.Depth, o.Int(0)), o.Not(isClose)),
		o.Implies(o.And(o.Eq(d.Depth, o.Int(1)), d.InObj, d.AtKey), in2(o, k, 5, 2)),
		o.Implies(o.And(o.Eq(d.Depth, o.Int(1)), d.InObj, o.Not(d.AtKey)), o.Not(isClose)),
		o.Eq(x.tokIsKey(d.View, d.Pos), o.And(o.Eq(d.Depth, o.Int(1)), d.InObj, d.AtKey, o.Eq(k, o.Int(5)))),
		o.Eq(x.tokIsClose(d.View, d.Pos), o.And(o.Eq(d.Depth, o.Int(1)), d.InObj, d.AtKey, o.Eq(k, o.Int(2)))),
		o.Eq(x.tokNKeys(d.View, o.Add(d.Pos, o.Int(1))), o.Add(x.tokNKeys(d.View, d.Pos), o.Ite(x.tokIsKey(d.View, d.Pos), o.Int(1), o.Int(0)))),
		o.Le(o.Int(0), x.tokText(d.View, d.Pos).Len))))
}

func (x *Exec) jsonToken(st *State, v Val) Val {
	o := x.o
	x.needIntJSON()
	obj, d := x.decoderOf(st, v)
	n := x.nTok(d.View)
	valid := o.Lt(d.Pos, n)
	k := x.tokKind(d.View, d.Pos)
	isOpen := in2(o, k, 1, 3)
	isClose := in2(o, k, 2, 4)
	x.jsonGrammar(st, d)
	// the token value
	tDelim, tNum := x.jsonType("Delim"), x.jsonType("Number")
	idDelim, idNum, idStr, idBool := x.typeID(tDelim), x.typeID(tNum), x.typeID(typString), x.typeID(typBool)
	delimRune := o.Ite(o.Eq(k, o.Int(1)), o.Int('{'), o.Ite(o.Eq(k, o.Int(2)), o.Int('}'), o.Ite(o.Eq(k, o.Int(3)), o.Int('['), o.Int(']'))))
	tag := o.Ite(o.Not(valid), o.Int(0), o.Ite(o.Or(isOpen, isClose), o.Int(int64(idDelim)), o.Ite(o.Eq(k, o.Int(5)), o.Int(int64(idStr)),
		o.Ite(o.Eq(k, o.Int(6)), o.Int(int64(idNum)), o.Ite(o.Eq(k, o.Int(7)), o.Int(int64(idBool)), o.Int(0))))))
	txt := x.tokText(d.View, d.Pos)
	tok := IfaceVal{Tag: tag, Pay: map[int]Val{idDelim: delimRune, idStr: txt, idNum: txt, idBool: x.tokBool(d.View, d.Pos)}}
	// error: nil iff a token was delivered; at the end of well-formed input it is io.EOF
	seq := x.callSeq
	x.callSeq++
	ev := ErrVal{Nil: valid, Is: map[string]*Term{}, As: map[string]*Term{}, Data: map[string]*Term{
		"inputLen": o.Int(-1), "isEOF": o.And(o.Not(valid), o.Not(x.jsonGarbage(d.View))), "origin": o.Int(1)}}
	_ = seq
	// ghost state after the call
	atDepth := func(n int64) *Term { return o.Eq(d.Depth, o.Int(n)) }
	newDepth := o.Ite(isOpen, o.Add(d.Depth, o.Int(1)), o.Ite(isClose, o.Sub(d.Depth, o.Int(1)), d.Depth))
	newInObj := o.Ite(o.And(atDepth(0), isOpen), o.Eq(k, o.Int(1)), d.InObj)
	newAtKey := o.Ite(o.And(atDepth(0), isOpen), o.Eq(k, o.Int(1)),
		o.Ite(o.And(atDepth(1), d.InObj), o.Ite(d.AtKey, o.False(), o.Not(isOpen)),
			o.Ite(o.And(atDepth(2), isClose), d.InObj, d.AtKey)))
	nd := DecVal{View: d.View, Pos: o.Ite(valid, o.Add(d.Pos, o.Int(1)), d.Pos), Depth: o.Ite(valid, newDepth, d.Depth),
		InObj: o.Ite(valid, newInObj, d.InObj), AtKey: o.Ite(valid, newAtKey, d.AtKey)}
	st.Cells[obj] = nd
	return TupleVal{tok, ev}
}

func (x *Exec) jsonMore(st *State, v Val) Val {
	o := x.o
	x.needIntJSON()
	_, d := x.decoderOf(st, v)
	x.jsonGrammar(st, d)
	n := x.nTok(d.View)
	k := x.tokKind(d.View, d.Pos)
	// Before the last token: whether the next token is a closing delimiter. After it, More() looks at the next
	// non-space byte whatever it is (a function of the document that the token stream does not determine).
	return o.Or(o.And(o.Lt(d.Pos, n), o.Not(in2(o, k, 2, 4))), o.And(o.Eq(d.Pos, n), o.UF("json.moreAtEnd", BoolSort, d.View.Arr, d.View.Off, d.View.Len)))
}

func init() {
	extSchemas["bytes.NewReader"] = func(x *Exec, st *State, fn *ssa.Function, args []Val, c *ssa.CallCommon) Val {
		obj := x.newObject("bytes.Reader", fn.Signature.Results().At(0).Type().(*types.Pointer).Elem())
		st.Cells[obj] = args[0]
		return PtrVal{Nil: x.o.False(), Obj: obj}
	}
	extSchemas["encoding/json.NewDecoder"] = func(x *Exec, st *State, fn *ssa.Function, args []Val, c *ssa.CallCommon) Val {
		o := x.o
		x.needIntJSON()
		var view StrVal
		found := false
		if iv, ok := args[0].(IfaceVal); ok {
			for _, p := range iv.Pay {
				if pv, ok := p.(PtrVal); ok && pv.Obj != nil {
					if sv, ok := st.Cells[pv.Obj].(SliceVal); ok {
						view = x.seqView(st, sv)
						found = true
					}
				}
			}
		}
		if !found {
			x.fail("json.NewDecoder: only a bytes.Reader over a byte slice is modelled")
		}
		obj := x.newObject("json.Decoder", fn.Signature.Results().At(0).Type().(*types.Pointer).Elem())
		st.Cells[obj] = DecVal{View: view, Pos: o.Int(0), Depth: o.Int(0), InObj: o.False(), AtKey: o.False()}
		return PtrVal{Nil: o.False(), Obj: obj}
	}
	extSchemas["(*encoding/json.Decoder).UseNumber"] = func(x *Exec, st *State, fn *ssa.Function, args []Val, c *ssa.CallCommon) Val {
		return nil
	}
	extSchemas["(*encoding/json.Decoder).Token"] = func(x *Exec, st *State, fn *ssa.Function, args []Val, c *ssa.CallCommon) Val {
		return x.jsonToken(st, args[0])
	}
	extSchemas["(*encoding/json.Decoder).More"] = func(x *Exec, st *State, fn *ssa.Function, args []Val, c *ssa.CallCommon) Val {
		return x.jsonMore(st, args[0])
	}
	invokeSchemas["size.decoder.Token"] = func(x *Exec, st *State, recv Val, args []Val, c *ssa.CallCommon) Val {
		x.trusted["(*encoding/json.Decoder).Token (through the decoder interface)"] = true
		return x.jsonToken(st, recv)
	}
	invokeSchemas["size.decoder.More"] = func(x *Exec, st *State, recv Val, args []Val, c *ssa.CallCommon) Val {
		x.trusted["(*encoding/json.Decoder).More (through the decoder interface)"] = true
		return x.jsonMore(st, recv)
	}
	extSchemas["(encoding/json.Number).String"] = func(x *Exec, st *State, fn *ssa.Function, args []Val, c *ssa.CallCommon) Val {
		return args[0]
	}
}

var _ = fmt.Sprint
