package main

// Loading /repo (with -tags verif), building SSA with monomorphised generics, indexing functions,
// reading contract files and the constant initialisers of package-level variables.

import (
	"fmt"
	"go/ast"
	"go/constant"
	"go/token"
	"go/types"
	"os"
	"path/filepath"
	"regexp/syntax"
	"sort"
	"strings"
	"sync"

	"golang.org/x/tools/go/packages"
	"golang.org/x/tools/go/ssa"
	"golang.org/x/tools/go/ssa/ssautil"
)

const modulePath = "go.lstv.dev/util"

type GlobalInit struct {
	Kind    string // "const", "table", "map", "regexp", "sentinel", "func", "opaque"
	Const   constant.Value
	Elems   []*GlobalInit          // table
	Fields  map[string]*GlobalInit // struct element
	Keys    []string               // map keys (string)
	Vals    []*GlobalInit          // map values
	Pattern string                 // regexp
	Func    string                 // function reference (contract key, possibly with instantiation)
	Type    types.Type
}

type Pkg struct {
	Name      string
	Path      string
	P         *packages.Package
	S         *ssa.Package
	Contracts *PkgContracts
	Inits     map[string]*GlobalInit // package-level var name -> initialiser
	Funcs     map[string][]*ssa.Function // contract key -> instances
}

type World struct {
	RepoDir string
	Fset    *token.FileSet
	Prog    *ssa.Program
	Pkgs    map[string]*Pkg // by package name (date, roman, ...)
	ByPath  map[string]*Pkg
	Regex   map[string]*syntax.Regexp
	Sentinels []string
	ErrTypes  []string
	regexMu   sync.Mutex
	regexes   map[string]*RegexInfo
	Names     map[string]*fnNames // names recorded from the unchanged tree (names.go)
	nwMu      sync.Mutex
	nwMemo    map[string]bool
}

func LoadWorld(repo string) (*World, error) {
	cfg := &packages.Config{
		Mode:       packages.LoadAllSyntax,
		Dir:        repo,
		BuildFlags: []string{"-tags=verif"},
		Env:        append(os.Environ(), "GOFLAGS=-mod=mod", "GOPROXY=off", "GOSUMDB=off", "GOTOOLCHAIN=local"),
		Tests:      false,
	}
	pkgs, err := packages.Load(cfg, "./...")
	if err != nil {
		return nil, err
	}
	var errs []string
	packages.Visit(pkgs, nil, func(p *packages.Package) {
		if strings.HasPrefix(p.PkgPath, modulePath) {
			for _, e := range p.Errors {
				errs = append(errs, e.Error())
			}
		}
	})
	if len(errs) > 0 {
		return nil, fmt.Errorf("package errors:\n%s", strings.Join(errs, "\n"))
	}
	prog, _ := ssautil.AllPackages(pkgs, ssa.InstantiateGenerics)
	prog.Build()
	w := &World{RepoDir: repo, Prog: prog, Pkgs: map[string]*Pkg{}, ByPath: map[string]*Pkg{}, Regex: map[string]*syntax.Regexp{}}
	for _, p := range pkgs {
		if !strings.HasPrefix(p.PkgPath, modulePath) {
			continue
		}
		w.Fset = p.Fset
		sp := prog.Package(p.Types)
		pk := &Pkg{Name: p.Name, Path: p.PkgPath, P: p, S: sp, Inits: map[string]*GlobalInit{}, Funcs: map[string][]*ssa.Function{}}
		w.Pkgs[p.Name] = pk
		w.ByPath[p.PkgPath] = pk
		cf := filepath.Join(repo, strings.TrimPrefix(strings.TrimPrefix(p.PkgPath, modulePath), "/"), "zz_contracts_verif.go")
		if _, err := os.Stat(cf); err == nil {
			pc, err := ParseContractFile(cf)
			if err != nil {
				return nil, err
			}
			pk.Contracts = pc
		} else {
			pk.Contracts = &PkgContracts{File: cf, Configs: map[string]string{}, ConstVars: map[string]bool{}, Pures: map[string]*PureFunc{}, Funcs: map[string]*FuncContract{}, Regexes: map[string]string{}, Guarded: map[string]string{}}
		}
		pk.readInits()
	}
	// index all functions (including instantiations and anonymous functions) of module packages
	for fn := range ssautil.AllFunctions(prog) {
		if fn.Pkg == nil && fn.Origin() != nil && fn.Origin().Pkg != nil {
			// instantiation: belongs to origin's package
		}
		pp := fnPkg(fn)
		if pp == nil {
			continue
		}
		pk := w.ByPath[pp.Pkg.Path()]
		if pk == nil {
			continue
		}
		if fn.Synthetic != "" && !strings.Contains(fn.Synthetic, "instance") {
			continue
		}
		if fn.TypeParams().Len() > 0 && len(fn.TypeArgs()) == 0 {
			continue // generic template body (not instantiated)
		}
		k := ContractKey(fn)
		pk.Funcs[k] = append(pk.Funcs[k], fn)
	}
	for _, pk := range w.Pkgs {
		for k := range pk.Funcs {
			fs := pk.Funcs[k]
			sort.Slice(fs, func(i, j int) bool { return fs[i].String() < fs[j].String() })
		}
	}
	return w, nil
}

func fnPkg(fn *ssa.Function) *ssa.Package {
	for f := fn; f != nil; f = f.Parent() {
		if f.Pkg != nil {
			return f.Pkg
		}
		if o := f.Origin(); o != nil && o.Pkg != nil {
			return o.Pkg
		}
	}
	return nil
}

// ContractKey: "Name" for functions, "(T).Name" / "(*T).Name" for methods, parent$N for closures.
func ContractKey(fn *ssa.Function) string {
	if p := fn.Parent(); p != nil {
		// anonymous function: name like "ErrorMatch$1"
		nm := fn.Name()
		if i := strings.LastIndex(nm, "$"); i >= 0 {
			return ContractKey(p) + nm[i:]
		}
		return ContractKey(p) + "$" + nm
	}
	base := fn
	if o := fn.Origin(); o != nil {
		base = o
	}
	name := base.Name()
	if recv := base.Signature.Recv(); recv != nil {
		t := recv.Type()
		ptr := false
		if pt, ok := t.(*types.Pointer); ok {
			ptr = true
			t = pt.Elem()
		}
		tn := t.String()
		if n, ok := t.(*types.Named); ok {
			tn = n.Obj().Name()
		}
		if ptr {
			return "(*" + tn + ")." + name
		}
		return "(" + tn + ")." + name
	}
	return name
}

// InstName is a stable display name: pkg.Key[typeargs]
func InstName(fn *ssa.Function) string {
	pp := fnPkg(fn)
	pn := "?"
	if pp != nil {
		pn = pp.Pkg.Name()
	}
	s := pn + "." + ContractKey(fn)
	root := fn
	for root.Parent() != nil {
		root = root.Parent()
	}
	if ta := root.TypeArgs(); len(ta) > 0 {
		var as []string
		for _, t := range ta {
			as = append(as, shortType(t))
		}
		s += "[" + strings.Join(as, ",") + "]"
	}
	return s
}

func shortType(t types.Type) string {
	s := types.TypeString(t, func(p *types.Package) string { return p.Name() })
	s = strings.ReplaceAll(s, "[]uint8", "[]byte")
	return s
}

func (pk *Pkg) readInits() {
	info := pk.P.TypesInfo
	for _, f := range pk.P.Syntax {
		for _, d := range f.Decls {
			gd, ok := d.(*ast.GenDecl)
			if !ok || gd.Tok != token.VAR {
				continue
			}
			for _, sp := range gd.Specs {
				vs := sp.(*ast.ValueSpec)
				if len(vs.Values) != len(vs.Names) {
					continue
				}
				for i, n := range vs.Names {
					if n.Name == "_" {
						continue
					}
					pk.Inits[n.Name] = readInit(info, vs.Values[i])
				}
			}
		}
	}
}

func readInit(info *types.Info, e ast.Expr) *GlobalInit {
	tv := info.Types[e]
	if tv.Value != nil {
		return &GlobalInit{Kind: "const", Const: tv.Value, Type: tv.Type}
	}
	switch x := ast.Unparen(e).(type) {
	case *ast.CompositeLit:
		switch ut := tv.Type.Underlying().(type) {
		case *types.Slice, *types.Array:
			g := &GlobalInit{Kind: "table", Type: tv.Type}
			for _, el := range x.Elts {
				if _, isKV := el.(*ast.KeyValueExpr); isKV {
					return &GlobalInit{Kind: "opaque", Type: tv.Type}
				}
				g.Elems = append(g.Elems, readInit(info, el))
			}
			return g
		case *types.Map:
			g := &GlobalInit{Kind: "map", Type: tv.Type}
			for _, el := range x.Elts {
				kv := el.(*ast.KeyValueExpr)
				ktv := info.Types[kv.Key]
				if ktv.Value == nil || ktv.Value.Kind() != constant.String {
					return &GlobalInit{Kind: "opaque", Type: tv.Type}
				}
				g.Keys = append(g.Keys, constant.StringVal(ktv.Value))
				g.Vals = append(g.Vals, readInit(info, kv.Value))
			}
			return g
		case *types.Struct:
			g := &GlobalInit{Kind: "struct", Type: tv.Type, Fields: map[string]*GlobalInit{}}
			for i, el := range x.Elts {
				if kv, ok := el.(*ast.KeyValueExpr); ok {
					g.Fields[kv.Key.(*ast.Ident).Name] = readInit(info, kv.Value)
				} else {
					g.Fields[ut.Field(i).Name()] = readInit(info, el)
				}
			}
			return g
		}
	case *ast.CallExpr:
		if sel, ok := x.Fun.(*ast.SelectorExpr); ok {
			if id, ok := sel.X.(*ast.Ident); ok {
				full := id.Name + "." + sel.Sel.Name
				switch full {
				case "regexp.MustCompile":
					if atv := info.Types[x.Args[0]]; atv.Value != nil {
						return &GlobalInit{Kind: "regexp", Pattern: constant.StringVal(atv.Value), Type: tv.Type}
					}
				case "errors.New":
					return &GlobalInit{Kind: "sentinel", Type: tv.Type}
				}
			}
		}
		// conversion T(const) is folded by go/types; other calls are opaque
	case *ast.Ident:
		if _, ok := info.Uses[x].(*types.Func); ok {
			return &GlobalInit{Kind: "func", Func: x.Name, Type: tv.Type}
		}
	case *ast.IndexExpr:
		if id, ok := x.X.(*ast.Ident); ok {
			if _, ok := info.Uses[id].(*types.Func); ok {
				return &GlobalInit{Kind: "func", Func: id.Name + "[" + shortType(info.Types[x.Index].Type) + "]", Type: tv.Type}
			}
		}
	case *ast.IndexListExpr:
		if id, ok := x.X.(*ast.Ident); ok {
			if _, ok := info.Uses[id].(*types.Func); ok {
				var as []string
				for _, ix := range x.Indices {
					as = append(as, shortType(info.Types[ix].Type))
				}
				return &GlobalInit{Kind: "func", Func: id.Name + "[" + strings.Join(as, ",") + "]", Type: tv.Type}
			}
		}
	case *ast.FuncLit:
		return &GlobalInit{Kind: "funclit", Type: tv.Type}
	}
	return &GlobalInit{Kind: "opaque", Type: tv.Type}
}

// LookupFunc finds an SSA function of package pk by contract key and optional instantiation suffix "[T]".
func (pk *Pkg) LookupFunc(name string) *ssa.Function {
	key, inst := name, ""
	if i := strings.Index(name, "["); i >= 0 && !strings.HasPrefix(name, "(") {
		key, inst = name[:i], name[i:]
	}
	for _, fn := range pk.Funcs[key] {
		if inst == "" || strings.HasSuffix(InstName(fn), inst) {
			return fn
		}
	}
	return nil
}
